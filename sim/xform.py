"""Driver-side execution of a --transform command (independent of fclones' own plumbing)."""
import os
import shutil
import subprocess

# (command string, extra group flags, class)
TRANSFORMS = [
    ("cat", [], "keep"),
    ("head -c 5", [], "shrink"),
    ("head -c 40", [], "shrink"),
    ("tail -c 9", [], "shrink"),
    ("cut -b 1-20", [], "shrink"),
    ("wc -c", [], "shrink"),
    ("sha1sum", [], "shrink"),
    ("base64", [], "expand"),
    ("base64 -w 0", [], "expand"),
    ("od -c", [], "expand"),
    ("od -An -tx1", [], "expand"),
    ("tr a-m A-M", [], "keep"),
    # fails (after writing the converted part) on files that contain a byte >= 0x80: in text worlds these
    # are the near-duplicates whose flipped byte left the ASCII range - a transform that works for some
    # files and fails for others
    ("iconv -f ascii -t utf-8", [], "keep"),
    ("cat $IN", [], "keep"),
    ("head -c 33 $IN", [], "shrink"),
    ("base64 $IN", [], "expand"),
    ("cat $IN", ["--no-copy"], "keep"),
    ("od -c $IN", ["--no-copy"], "expand"),
    ("dd if=$IN of=$OUT status=none", [], "keep"),
    ("dd of=$OUT status=none", [], "keep"),
    ("cp $IN $OUT", [], "keep"),
    ("dd if=$IN of=$OUT bs=1 count=17 status=none", [], "shrink"),
    ("truncate -s 12 $IN", ["--in-place"], "shrink"),
    ("truncate -s +50 $IN", ["--in-place"], "expand"),
    ("sed -i s/a/b/g $IN", ["--in-place"], "keep"),
    ("true $IN", ["--in-place"], "keep"),
]


def run_transform(cmd, flags, path, scratch, n=[0]):
    """-> output bytes, or None when the command fails"""
    n[0] += 1
    argv = cmd.split(" ")
    has_in = "$IN" in cmd
    has_out = "$OUT" in cmd
    tin = os.path.join(scratch, "xin.%d" % n[0]).encode()
    tout = os.path.join(scratch, "xout.%d" % n[0]).encode()
    if has_in:
        shutil.copyfile(path, tin)
    av = []
    for a in argv:
        a = a.encode()
        a = a.replace(b"$IN", tin).replace(b"$OUT", tout)
        av.append(a)
    try:
        with open(path if not has_in else os.devnull, "rb") as fin:
            r = subprocess.run(av, stdin=fin, stdout=subprocess.PIPE, stderr=subprocess.PIPE,
                               env={"PATH": "/usr/local/bin:/usr/bin:/bin", "LANG": "C.UTF-8"})
        if r.returncode != 0:
            return None
        if "--in-place" in flags:
            with open(tin, "rb") as f:
                return f.read()
        if has_out:
            with open(tout, "rb") as f:
                return f.read()
        return r.stdout
    finally:
        for t in (tin, tout):
            try:
                os.unlink(t)
            except OSError:
                pass
