"""Seeded generators: group configurations (with tuning-knob overrides) and worlds whose contents
differ exactly at the stage boundaries of that configuration."""
import os

from .core import T0_NS, b2s, s2b
from .world import World

HASH_FNS = ["metro", "xxhash", "blake3", "sha256", "sha512", "sha3-256", "sha3-512"]

# name alphabets (bytes); "plain" first
ALPHABETS = {
    "plain": [b"a", b"b", b"c", b"d", b"e", b"f", b"g", b"h", b"k", b"m", b"x1", b"file", b"doc.txt"],
    "space": [b" lead", b"trail ", b"in ner", b"  two", b"tab\there", b"t\t", b" ", b"a b c"],
    "quote": [b"it's", b'say"hi"', b"back\\slash", b"$HOME", b"`cmd`", b"a;b", b"a&b", b"(p)", b"#h", b"~t", b"a=b", b"%p", b"!x", b"-n", b"--help"],
    "ctrl": [b"new\nline", b"cr\rx", b"bell\x07", b"esc\x1b[0m", b"\x01\x02", b"del\x7f", b"nl\n", b"\nnl"],
    "glob": [b"*star", b"q?", b"[b]", b"{a,b}", b"a+b", b"dot.", b"^c$", b"a|b", b"@(x)"],
    "uni": ["zażółć".encode(), "日本語".encode(), "emoji\U0001F600".encode(), "é".encode(), " nbsp".encode(), " ls".encode(), "�rep".encode()],
    # valid UTF-8 that stays raw in a report but that trimming / control-character logic may eat
    "edge": [b"nel\xc2\x85", b"\xc2\x85lead", b"trail\xc2\xa0", b"ls\xe2\x80\xa8", b"ps\xe2\x80\xa9", b"ideo\xe3\x80\x80",
             b"bom\xef\xbb\xbf", b"zw\xe2\x80\x8b", b"c1\xc2\x9f", b"\xc2\x80c1", b"vt\x0b", b"ff\x0c", b"#hash", b"# Report", b"0123abcd, 5 B (5 B) * 2:"],
    "bad": [b"\xff\xfe", b"a\xc3", b"\x80x", b"ok\xed\xa0\x80", b"\xf0\x9f", b"\xc0\xaf"],
}


def pick_alphabets(rng, hostile=True):
    fams = ["plain"]
    if hostile:
        for k in ("space", "quote", "ctrl", "glob", "uni", "edge", "bad"):
            if rng.random() < 0.35:
                fams.append(k)
    return fams


class Names:
    def __init__(self, rng, fams):
        self.rng = rng
        self.pool = []
        for f in fams:
            self.pool += ALPHABETS[f]
        self.used = set()
        self.n = 0
        self.long_names = False

    def fresh(self, parent):
        for _ in range(20):
            nm = self.rng.choice(self.pool)
            if self.rng.random() < 0.3:
                nm = nm + self.rng.choice([b".txt", b"2", b".bak", b"_"])
            if self.long_names and self.rng.random() < 0.06:
                # a name near NAME_MAX (255 bytes): no room for a suffix of a temporary sibling
                nm = (nm * 300)[:self.rng.choice([226, 231, 240, 255])]
            key = parent + b"/" + nm
            if key not in self.used and nm not in (b".", b"..") and b"/" not in nm and b"\0" not in nm:
                self.used.add(key)
                return nm
        self.n += 1
        nm = b"n%d" % self.n
        self.used.add(parent + b"/" + nm)
        return nm


# ----------------------------------------------------------------------------- group configuration

def gen_cfg(rng, small=None, allow_transform=False, allow_cache=True, devices=True):
    """A `group` configuration: args, env (knobs, device pin), and the stage boundaries it implies."""
    cfg = {}
    cfg["hash_fn"] = rng.choice(HASH_FNS)
    kind = rng.choice(["ssd", "hdd", "unknown"]) if devices else "ssd"
    cfg["kind"] = kind
    small = rng.random() < 0.7 if small is None else small
    cfg["small"] = small
    if small:
        minp = rng.choice([1, 8, 16, 32])
        maxp = rng.choice([minp, minp * 2, minp * 4, 64, 100])
        if maxp < minp:
            maxp = minp
        cfg["knobs"] = {
            "FCLONES_VERIF_MIN_PREFIX": minp,
            "FCLONES_VERIF_MAX_PREFIX": maxp,
            "FCLONES_VERIF_BUF_LEN": rng.choice([1, 7, 16, 32, 64, 100]),
            "FCLONES_VERIF_SUFFIX_THRESHOLD": rng.choice([0, 64, 128, 256, 300]),
        }
        minp_, maxp_ = minp, maxp
        buf = cfg["knobs"]["FCLONES_VERIF_BUF_LEN"]
        thr = cfg["knobs"]["FCLONES_VERIF_SUFFIX_THRESHOLD"]
    else:
        cfg["knobs"] = {}
        minp_ = 4096
        maxp_ = 4096 if kind == "ssd" else 16384
        buf = 65536
        thr = 65536 if kind == "ssd" else 64 * 1024 * 1024
    cfg["max_prefix_size"] = None
    cfg["max_suffix_size"] = None
    if rng.random() < 0.3:
        cfg["max_prefix_size"] = rng.choice([1, 10, 64, 200]) if small else rng.choice([1024, 4096, 70000])
        maxp_ = cfg["max_prefix_size"]
    if rng.random() < 0.3:
        cfg["max_suffix_size"] = rng.choice([1, 10, 64]) if small else rng.choice([1024, 4096])
    suf = cfg["max_suffix_size"] if cfg["max_suffix_size"] is not None else (cfg["knobs"].get("FCLONES_VERIF_MAX_PREFIX", 4096 if kind == "ssd" else 16384))
    if rng.random() < 0.1:
        # a suffix limit far above the lengths of the files (the help text of --skip-content-hash recommends
        # raising both limits): "the last N bytes" of a shorter file is the whole file
        cfg["max_suffix_size"] = rng.choice([1000, 5000]) if small else rng.choice([10**6, 2**31])
        suf = cfg["max_suffix_size"]
    # the DEFAULT suffix length never exceeds the shipped suffix threshold; the knobs must not construct a
    # configuration that cannot be shipped (threshold below the default suffix length).  A suffix limit given by
    # the user with --max-suffix-size is an input like any other and may exceed the threshold and the file
    if thr < suf and cfg["max_suffix_size"] is None:
        thr = suf
        if small:
            cfg["knobs"]["FCLONES_VERIF_SUFFIX_THRESHOLD"] = thr
    cfg["bounds"] = {"min_prefix": minp_, "max_prefix": maxp_, "buf": buf, "suffix_threshold": thr, "suffix": suf}
    if small and rng.random() < 0.15:
        # aligned boundaries: suffix length == suffix threshold == a file length, prefix limit above it
        # (whole-file prefix hash and whole-file suffix hash meet; the contents stage is skipped)
        L = rng.choice([8, 32, 100, 200])
        cfg["knobs"]["FCLONES_VERIF_SUFFIX_THRESHOLD"] = rng.choice([L, L, max(1, L // 2)])
        cfg["max_suffix_size"] = L
        cfg["max_prefix_size"] = L + rng.choice([1, 10, 100])
        cfg["bounds"] = {"min_prefix": minp_, "max_prefix": cfg["max_prefix_size"], "buf": buf,
                         "suffix_threshold": cfg["knobs"]["FCLONES_VERIF_SUFFIX_THRESHOLD"], "suffix": L}
    cfg["threads"] = rng.choice([["1"], ["main:1"], [], ["2"], ["default:1,1"], ["ssd:3,2", "hdd:1,1", "unknown:2,3"],
                                 ["main:2", "default:4,1"], ["16"], ["0"]])
    cfg["cache"] = allow_cache and rng.random() < 0.2
    cfg["transform"] = None
    return cfg


def cfg_args(cfg):
    a = ["--hash-fn", cfg["hash_fn"]]
    for t in cfg["threads"]:
        a += ["--threads", t]
    if cfg.get("max_prefix_size") is not None:
        a += ["--max-prefix-size", str(cfg["max_prefix_size"])]
    if cfg.get("max_suffix_size") is not None:
        a += ["--max-suffix-size", str(cfg["max_suffix_size"])]
    if cfg.get("cache"):
        a += ["--cache"]
    if cfg.get("transform"):
        a += ["--transform", cfg["transform"]]
        a += cfg.get("transform_flags", [])
    return a


def cfg_env(cfg, rd=None, dev2=None):
    e = {k: str(v) for k, v in cfg.get("knobs", {}).items()}
    spec = "/=%s:simroot" % cfg.get("kind", "ssd")
    if dev2 and rd is not None:
        spec += ";%s=%s:simdisk2" % (os.path.join(rd.world, dev2), cfg.get("kind2", "hdd"))
    e["FCLONES_VERIF_DEVICES"] = spec
    return e


# ----------------------------------------------------------------------------- contents

def boundary_offsets(n, b):
    offs = {0, n - 1, n // 2}
    for v in (b["min_prefix"], b["max_prefix"], b["buf"], 2 * b["buf"], n - b["suffix"]):
        for d in (-1, 0, 1):
            offs.add(v + d)
    return sorted(o for o in offs if 0 <= o < n)


def gen_lengths(rng, b, small):
    cands = {0, 1, 2}
    for v in (b["min_prefix"], b["max_prefix"], b["buf"], 2 * b["buf"], b["suffix_threshold"], b["suffix"],
              b["suffix_threshold"] + b["suffix"], 3 * b["buf"]):
        for d in (-1, 0, 1, 7):
            if v + d >= 0:
                cands.add(v + d)
    cands = sorted(c for c in cands if c <= (2000 if small else 200000))
    return cands


HOSTILE_ROOT_NAMES = [b"r %d" , b"r'%d", b"r\xc3\xa9'x%d", b"r$%d \xe6\x97\xa5", b"r\t%d\xc4\x99", b"r\"%d\"", b"r\\%d", b"r%d\xc5\xbc\xc3\xb3'\xc5\x82w", b"-r%d",
                      # names ending in non-ASCII white space (NBSP, NEL, ideographic space) and an empty-looking one
                      b"r%d\xc2\xa0", b"r%d\xc2\x85", b"r%d\xe3\x80\x80", b"\xe2\x80\x83r%d"]


RELATED_ROOT_NAMES = ["r1", "r1x", "r1-old", "r1.d", "r12", "r1 2"]


def root_names(rng, nroots):
    """Names of the root directories: r1..rN, or (a third of the multi-root worlds) siblings whose names
    are string prefixes of one another, in random order - 'is under root' must be decided per path
    component, not per character."""
    if nroots >= 2 and rng.random() < 0.35:
        return rng.sample(RELATED_ROOT_NAMES, nroots)
    return ["r%d" % (i + 1) for i in range(nroots)]


def gen_world(rng, cfg, *, nroots=1, hostile=True, links=True, max_files=24, families=None, min_len=0, hostile_roots=False,
              wide=False):
    """World with `families` content families; every family has exact copies and near copies that
    differ in one byte at a stage boundary offset."""
    b = cfg["bounds"]
    small = cfg["small"]
    fams = pick_alphabets(rng, hostile)
    names = Names(rng, fams)
    names.long_names = hostile
    w = World()
    roots = root_names(rng, nroots)
    if hostile_roots:
        # root names end up as arguments in the report header's command line
        roots = [b2s(rng.choice(HOSTILE_ROOT_NAMES) % (i + 1)) for i in range(nroots)]
    dirs = []
    for r in roots:
        w.add_dir(r)
        dirs.append(s2b(r))
        for _ in range(rng.randint(0, 3)):
            parent = rng.choice([d for d in dirs if d == s2b(r) or d.startswith(s2b(r) + b"/")])
            nm = names.fresh(parent)
            d = parent + b"/" + nm
            w.add_dir(b2s(d))
            dirs.append(d)
    lengths = [l for l in gen_lengths(rng, b, small) if l >= min_len]
    nf = families if families is not None else rng.randint(1, 5)
    count = 0
    regular = []
    for fam in range(nf):
        n = rng.choice(lengths)
        nvar = rng.randint(1, 3)
        variants = [[]]
        offs = boundary_offsets(n, b) if n > 0 else []
        for _ in range(nvar - 1):
            if offs:
                variants.append([[rng.choice(offs), rng.randint(1, 255)]])
        for flips in variants:
            copies = rng.choice([8, 12, 20]) if wide else rng.choice([1, 1, 2, 2, 3, 4])
            for _ in range(copies):
                if count >= max_files:
                    break
                parent = rng.choice(dirs)
                nm = names.fresh(parent)
                p = b2s(parent + b"/" + nm)
                mt = T0_NS - rng.randint(1, 10**6) * 10**9 - rng.randint(0, 999) * 10**6
                w.add_file(p, {"fam": fam, "len": n, "flips": flips}, mt=mt)
                regular.append(p)
                count += 1
    if hostile:
        # confusable siblings: a name that differs from another one only by surrounding whitespace
        # (unique content), so that a trimmed or mangled path names a *different existing* file
        import unicodedata
        extra = []

        def stripped(nm):
            try:
                u = nm.decode("utf-8")
            except UnicodeDecodeError:
                return nm.strip(b" \t\n\r\x0b\x0c")
            def junk(ch):
                return ch.isspace() or unicodedata.category(ch) in ("Cc", "Cf", "Zs", "Zl", "Zp")
            a, b_ = 0, len(u)
            while a < b_ and junk(u[a]):
                a += 1
            while b_ > a and junk(u[b_ - 1]):
                b_ -= 1
            return u[a:b_].encode("utf-8")

        for p in list(regular):
            pb = s2b(p)
            d, nm = os.path.split(pb)
            st = stripped(nm)
            if st and st != nm and rng.random() < 0.7:
                q = d + b"/" + st
                if q not in names.used and b2s(q) not in regular:
                    names.used.add(q)
                    ln = [e["c"]["len"] for e in w.entries if e["t"] == "f" and e["p"] == p][0]
                    if rng.random() < 0.3:
                        ln = rng.choice(lengths) or 3
                    w.add_file(b2s(q), {"fam": 900 + len(extra), "len": ln, "flips": []},
                               mt=T0_NS - rng.randint(1, 10**6) * 10**9)
                    extra.append(b2s(q))
    if hostile:
        # confusable siblings of another kind: a name that, read as a shell pattern, matches ANOTHER existing file
        # of the directory ("[b]" next to "b", "q?" next to "qz", "*star" next to "zstar"): unique content
        for p in list(regular):
            pb = s2b(p)
            d, nm = os.path.split(pb)
            alt = nm.replace(b"[b]", b"b").replace(b"?", b"z").replace(b"*", b"z").replace(b"{a,b}", b"a")
            if alt != nm and rng.random() < 0.6:
                q = d + b"/" + alt
                if q not in names.used:
                    names.used.add(q)
                    w.add_file(b2s(q), {"fam": 950 + len(w.entries), "len": rng.choice(lengths) or 3, "flips": []},
                               mt=T0_NS - rng.randint(1, 10**6) * 10**9)
    if hostile and regular and rng.random() < 0.25:
        # sibling DIRECTORIES whose names differ only in bytes that are not UTF-8 (and the replacement character
        # itself), each holding a copy under the same file name: any lossy rendering of the parent makes them one
        tgt = rng.choice(regular)
        parent = rng.choice(dirs)
        src = [e for e in w.entries if e["t"] == "f" and e["p"] == tgt][0]
        sib = [parent + b"/u\xff", parent + b"/u\xfe", parent + b"/u\xef\xbf\xbd"]
        if not any(c in names.used for c in sib):
            for c in sib[:rng.choice([2, 3])]:
                names.used.add(c); names.used.add(c + b"/x")
                w.add_dir(b2s(c))
                w.add_file(b2s(c + b"/x"), dict(src["c"]), mt=T0_NS - rng.randint(1, 10**6) * 10**9)
                regular.append(b2s(c + b"/x"))
    if links and regular:
        # wide worlds: many links to few inodes (replica counting over long runs of one inode)
        for _ in range(rng.choice([12, 25, 40]) if wide else rng.choice([0, 0, 1, 2])):
            tgt = rng.choice(regular[:3]) if wide else rng.choice(regular)
            parent = rng.choice(dirs)
            nm = names.fresh(parent)
            w.add_hardlink(b2s(parent + b"/" + nm), tgt)
        if rng.random() < 0.3:
            # paths whose components CONCATENATE to the same string (q/zk, qz/k, qzk): hard links of
            # one file and a plain copy - path identity must respect component boundaries
            tgt = rng.choice(regular)
            parent = rng.choice(dirs)
            cand = [parent + b"/q/zk", parent + b"/qz/k", parent + b"/qzk"]
            if not any(c in names.used or c[:c.rfind(b"/")] in names.used for c in cand):
                for c in cand:
                    names.used.add(c)
                names.used.add(parent + b"/q"); names.used.add(parent + b"/qz")
                w.add_dir(b2s(parent + b"/q")); w.add_dir(b2s(parent + b"/qz"))
                w.add_hardlink(b2s(cand[0]), tgt)
                w.add_hardlink(b2s(cand[1]), tgt)
                src = [e for e in w.entries if e["t"] == "f" and e["p"] == tgt][0]
                w.add_file(b2s(cand[2]), dict(src["c"]), mt=src.get("mt"))
        if rng.random() < 0.3:
            # a RELATIVE link that sorts first in the first root: with -S it is likely to be the retained
            # member of its class, and its text only resolves from its own directory
            tgt = rng.choice(regular)
            lp = s2b(roots[0]) + b"/0lnk"
            if lp not in names.used and os.path.dirname(s2b(tgt)) != s2b(roots[0]):
                names.used.add(lp)
                hop = os.path.dirname(s2b(tgt)) + b"/1hop"
                if rng.random() < 0.5 and hop not in names.used:
                    # a CHAIN: 0lnk -> <dir of the file>/1hop -> <file> (both relative): resolving one hop only
                    # yields another link, whose text is valid from its own directory only
                    names.used.add(hop)
                    w.add_symlink(b2s(hop), b2s(os.path.basename(s2b(tgt))))
                    w.add_symlink(b2s(lp), b2s(os.path.relpath(hop, s2b(roots[0]))))
                else:
                    w.add_symlink(b2s(lp), b2s(os.path.relpath(s2b(tgt), s2b(roots[0]))))
        for _ in range(rng.choice([0, 0, 1, 2])):
            tgt = rng.choice(regular)
            parent = rng.choice(dirs)
            nm = names.fresh(parent)
            style = rng.choice(["abs", "rel"])
            lp = parent + b"/" + nm
            if style == "rel":
                to = os.path.relpath(s2b(tgt), parent)
                w.add_symlink(b2s(lp), b2s(to))
            else:
                w.add_symlink(b2s(lp), "@ROOT@/" + tgt)
    return w, roots
