"""C13 - results are deterministic and independent of performance settings (engine A half).

One world, many runs: repetitions x thread-pool specifications x permutations of the roots x
--stdin vs arguments, with seeded per-call delays that steer who finishes first.  Report bodies
must be byte-identical; across hash functions / prefix-suffix sizes / device kinds / cache the
partition must be equal; every run must terminate."""
import os
import random

from .. import core, ops, gen, report
from ..core import T0_NS, b2s, s2b, rule, stable_hash
from ..world import World

ID = "C13"
LEVEL = "exploration"
ENGINE_B2 = True
BUDGET = {"quick": {"n": 70, "variants": 10, "wall_s": 420}, "thorough": {"n": 2000, "variants": 22, "wall_s": 3300}}
RULE = ("per world: a reference run (--threads 1) and V variants drawn from thread specs {1, main:1, 0, default:1,1, "
        "ssd:64,64, hdd:1,1, unknown:3,2, 16, main:2+default:4,1, 64} x permutation of the roots x {arguments, --stdin} x "
        "seeded delay plans on open/read/stat/readdir (0.1-2 ms, different calls delayed in every variant) x repetition; "
        "the report body (all non-header lines) must be byte-identical. Plus 4 variants changing hash function, "
        "prefix/suffix sizes, device kind, cache: equal partition. Every run must exit within 60 s. non-trivial = body has "
        ">= 2 groups or a group with >= 3 paths; distinct = distinct (world, variant) trace signatures. Every 5th case adds an "
        "open-file budget run (C19 in situ): RLIMIT_NOFILE=80, 200 hashing threads, delayed reads over 160 same-size files; the "
        "seam must never see more than 75 scanned files open at once")
ASSUMPTIONS = ["thread interleavings are steered by seeded delays, not enumerated (engine B2 controls them for the rehash pipeline)",
               "with --isolate the order of the roots is part of the input (the property says roots stay in the order given)",
               "--isolate is not combined with --stdin (fclones rejects the combination up front: the roots must be known before the scan)"]
THREADS = [["1"], ["main:1"], ["0"], ["default:1,1"], ["ssd:64,64"], ["hdd:1,1"], ["unknown:3,2"], ["16"],
           ["main:2", "default:4,1"], ["64"], ["main:16", "ssd:1,1", "hdd:1,1", "unknown:1,1"], []]


def gen_case(seed, i, nvar):
    rng = random.Random(stable_hash(seed, ID, i))
    cfg = gen.gen_cfg(rng, allow_cache=False)
    nroots = rng.choice([1, 2, 3])
    wide = rng.random() < 0.2       # dozens of entries of one size: batching by pool size shows only on big classes
    world, roots = gen.gen_world(rng, cfg, nroots=nroots, hostile=rng.random() < 0.3, max_files=48 if wide else rng.choice([12, 24, 40]), wide=wide,
                                 families=rng.choice([1, 1, 2, 3, 4, 6]), min_len=0)   # few families = many entries of one size
    gflags = []
    if nroots >= 2 and rng.random() < 0.25:
        gflags.append("--isolate")
    r_ = rng.random()
    if r_ < 0.2:
        gflags += ["--rf-over", "0"]
    elif r_ < 0.4 and "--isolate" not in gflags:
        gflags += rng.choice([["--rf-under", "3"], ["--rf-under", "2"], ["--unique"], ["--rf-over", "2"]])
    if rng.random() < 0.15:
        gflags.append("-H")
    if rng.random() < 0.2:
        gflags += ["--min", "0"]
    if "--isolate" not in gflags and (wide or rng.random() < 0.3):
        # overlapping / repeated input paths: every path below is reached twice
        subs = [e["p"] for e in world.entries if e["t"] == "d" and "/" in e["p"]]
        roots = list(roots)
        roots.insert(rng.randint(0, len(roots)), rng.choice(subs) if subs and rng.random() < 0.6 else rng.choice(roots))
        nroots = len(roots)
    if "--isolate" not in gflags and rng.random() < 0.25:
        # FILE input paths, some of them spelled through a directory symlink (zz/d/link -> ../e): the same file is
        # named by several input paths, next to one another in any order
        regs = [e for e in world.entries if e["t"] == "f"]
        if regs:
            src = rng.choice(regs)
            base_ = roots[0] + "/zz"
            world.add_file(base_ + "/e/sub/f", dict(src["c"])); world.add_file(base_ + "/d/a", dict(src["c"]))
            world.add_file(base_ + "/e/sub/g", dict(src["c"]))
            world.add_symlink(base_ + "/d/link", "../e")
            roots = list(roots)
            extra = [base_ + "/d/a", base_ + "/d/link/sub/f"] + rng.sample([base_ + "/e", base_ + "/d/link/sub/g", base_ + "/e/sub/f", base_ + "/d/link"], rng.randint(0, 2))
            if rng.random() < 0.4:
                roots = []          # the files alone, without the directory that contains them all
            for x in extra:
                roots.insert(rng.randint(0, len(roots)), x)
            nroots = len(roots)
    variants = []
    for v in range(nvar):
        perm = list(range(nroots))
        if "--isolate" not in gflags:
            rng.shuffle(perm)
        dk = rng.sample(["open", "read", "stat", "readdir", "opendir"], rng.randint(0, 3))
        variants.append({"threads": rng.choice(THREADS), "perm": perm, "stdin": rng.random() < 0.25 and "--isolate" not in gflags,
                         "delays": [[k, rng.choice([100, 300, 1000, 2000]), rng.choice([1, 2, 3])] for k in dk],
                         "seed": rng.randint(1, 10**9)})
    pvariants = []
    for v in range(4):
        c2 = gen.gen_cfg(rng)
        pvariants.append({"cfg": c2})
    return {"i": i, "cfg": cfg, "world": world.to_json(), "roots": roots, "gflags": gflags, "variants": variants, "pvariants": pvariants,
            # one file (inode) that cannot be opened, in every run of the case: a failing file must cost itself only,
            # whatever the pool sizes
            "unreadable": rng.random() < 0.25}


def gen_cases(tier, seed):
    for i in range(BUDGET[tier]["n"]):
        yield gen_case(seed, i, BUDGET[tier]["variants"])


def shrink(case):
    if len(case["variants"]) > 1:
        for i in range(len(case["variants"])):
            c = dict(case); c["variants"] = case["variants"][:i] + case["variants"][i + 1:]; yield c
    if case["pvariants"]:
        for i in range(len(case["pvariants"])):
            c = dict(case); c["pvariants"] = case["pvariants"][:i] + case["pvariants"][i + 1:]; yield c
    ents = case["world"]["entries"]
    for i, e in enumerate(ents):
        if e["p"] in case["roots"]:
            continue
        if e["t"] == "d" and any(o["p"].startswith(e["p"] + "/") for o in ents):
            continue
        if any(o.get("to") == e["p"] and o["t"] == "h" for o in ents):
            continue
        c = dict(case); c["world"] = {"entries": ents[:i] + ents[i + 1:]}; yield c
    for v in range(len(case["variants"])):
        if case["variants"][v]["delays"]:
            c = dict(case); c["variants"] = [dict(x) for x in case["variants"]]; c["variants"][v]["delays"] = []; yield c


def body_of(out):
    return b"\n".join(l for l in out.split(b"\n") if not l.startswith(b"#"))


def run_case(case):
    cfg = case["cfg"]
    viol = []
    with core.RunDir("c13") as rd:
        World.from_json(case["world"]).materialise(rd.world)
        roots = [os.path.join(rd.wb(), s2b(r)) for r in case["roots"]]
        env = gen.cfg_env(cfg)
        base_args = ["--hash-fn", cfg["hash_fn"]] + case["gflags"]
        for k in ("max_prefix_size", "max_suffix_size"):
            if cfg.get(k) is not None:
                base_args += ["--" + k.replace("_", "-"), str(cfg[k])]
        bad = []
        if case.get("unreadable"):
            files = sorted(e["p"] for e in case["world"]["entries"] if e["t"] == "f")
            if files:
                victim = os.lstat(ops.absw(rd, files[len(files) // 3])).st_ino
                for e in case["world"]["entries"]:
                    try:
                        same = e["t"] in ("f", "h", "l") and os.stat(ops.absw(rd, e["p"])).st_ino == victim
                    except OSError:
                        same = False
                    if same:
                        bad.append(rule(kind="open", path=b2s(ops.absw(rd, e["p"])), act="errno:EACCES", count="inf"))
        ref = ops.group(rd, roots, base_args + ["--threads", "1"], env=env, seed=1, plan=list(bad))
        traces = [ref.trace]
        inv = 1

        def V(clause, detail):
            viol.append({"clause": clause, "detail": detail + " | gflags=%s cfg=%s" % (case["gflags"], {k: cfg.get(k) for k in ("hash_fn", "kind", "knobs", "max_prefix_size", "max_suffix_size")})})

        if ref.timed_out:
            V("terminates", "reference run (--threads 1) hung")
        nontrivial = False
        if ref.rc == 0 and not ref.timed_out:
            refbody = body_of(ref.out)
            rep = report.parse_text(ref.out)
            nontrivial = len(rep.groups) >= 2 or any(len(g.paths) >= 3 for g in rep.groups)
            for vi, v in enumerate(case["variants"]):
                targs = []
                for t in v["threads"]:
                    targs += ["--threads", t]
                vroots = [roots[k] for k in v["perm"]]
                plan = list(bad) + [rule(kind=k, act="delay:%d" % us, prefix=rd.world, count=max(1, 10_000_000 // us)) for k, us, _ in v["delays"]]   # at most 10 s of injected delay per rule: with a 1-byte read buffer a run issues 10^5 reads
                if v["stdin"]:
                    res = ops.group(rd, [], base_args + targs + ["--stdin"], env=env, seed=v["seed"], plan=plan,
                                    stdin=b"\n".join(vroots) + b"\n") if all(b"\n" not in r for r in vroots) else None
                else:
                    res = ops.group(rd, vroots, base_args + targs, env=env, seed=v["seed"], plan=plan)
                if res is None:
                    continue
                inv += 1
                traces.append(res.trace)
                if res.timed_out:
                    V("terminates", "variant %d (threads %s) did not terminate within 60 s" % (vi, v["threads"]))
                    continue
                if res.rc != ref.rc:
                    V("same-exit-status", "variant %d exits %s, reference %s: %s" % (vi, res.rc, ref.rc, res.err.decode("utf-8", "replace")[-300:]))
                    continue
                b = body_of(res.out)
                if b != refbody:
                    la, lb = refbody.split(b"\n"), b.split(b"\n")
                    k = next((j for j in range(min(len(la), len(lb))) if la[j] != lb[j]), min(len(la), len(lb)))
                    V("body-identical", "variant %d (threads=%s perm=%s stdin=%s delays=%s): body differs at line %d: %r vs %r (%d vs %d lines)" % (
                        vi, v["threads"], v["perm"], v["stdin"], v["delays"], k, la[k] if k < len(la) else None, lb[k] if k < len(lb) else None, len(la), len(lb)))
            refpart = rep.pathsets()
            for pi, pv in enumerate(case["pvariants"]):
                c2 = pv["cfg"]
                res = ops.group(rd, roots, gen.cfg_args(c2) + case["gflags"] + ["-f", "json"], env=gen.cfg_env(c2), seed=7 + pi,
                                plan=list(bad))
                inv += 1
                if res.timed_out:
                    V("terminates", "configuration variant %d did not terminate" % pi)
                    continue
                if res.rc != 0:
                    # the same tree and selection under another performance configuration: it has to deliver a partition too
                    V("config-variant-succeeds", "hash=%s kind=%s knobs=%s prefix=%s suffix=%s cache=%s exits %s where the reference run succeeds: %s" % (
                        c2["hash_fn"], c2["kind"], c2["knobs"], c2["max_prefix_size"], c2["max_suffix_size"], c2["cache"], res.rc,
                        res.err.decode("utf-8", "replace")[-300:]))
                    continue
                part = report.parse_json(res.out).pathsets()
                if part != refpart:
                    V("partition-config-independent", "hash=%s kind=%s knobs=%s prefix=%s suffix=%s cache=%s gives a different partition: only-ref %s only-variant %s" % (
                        c2["hash_fn"], c2["kind"], c2["knobs"], c2["max_prefix_size"], c2["max_suffix_size"], c2["cache"],
                        [[b2s(ops.relw(rd, p)) for p in g] for g in refpart if g not in part][:3],
                        [[b2s(ops.relw(rd, p)) for p in g] for g in part if g not in refpart][:3]))
        budget_probe = None
        if case["i"] % 5 == 0:
            # open-file budget (C19 in situ): RLIMIT_NOFILE=80 -> budget max(80-5, 64) = 75 permits; 160
            # same-size files, 200 hashing threads, every read delayed so that tasks hold their files
            aux = os.path.join(rd.world, "budget")
            os.makedirs(aux)
            for k in range(160):
                with open(os.path.join(aux, "f%03d" % k), "wb") as f:
                    f.write(b"%03d" % (k % 40) + b"x" * 297)
            plan = [rule(kind="read", act="delay:3000", prefix=aux, count="inf")]
            res = ops.group(rd, [aux], ["--threads", "200", "--hash-fn", cfg["hash_fn"]], env=env, plan=plan, seed=3, nofile=80)
            inv += 1
            budget_probe = res.trace.maxfd
            if res.timed_out:
                V("terminates", "run with RLIMIT_NOFILE=80 and 200 threads did not terminate")
            elif res.rc != 0:
                V("budget-run-succeeds", "run with RLIMIT_NOFILE=80 and 200 threads failed: %s" % res.err.decode("utf-8", "replace")[-300:])
            else:
                if res.trace.maxfd > 75:
                    V("open-file-budget", "%d scanned files were open at once with a budget of 75 (RLIMIT_NOFILE=80)" % res.trace.maxfd)
                if b"Too many open files" in res.err:
                    V("open-file-budget", "EMFILE reported: %s" % res.err.decode("utf-8", "replace")[-300:])
                rep = report.parse_text(res.out)
                if len(rep.groups) != 40 or any(len(g.paths) != 4 for g in rep.groups):
                    V("budget-run-complete", "expected 40 groups of 4 files, got %d groups" % len(rep.groups))
        verdict = ",".join(sorted({v["clause"] for v in viol}))
        return {
            "violations": viol,
            "nontrivial": nontrivial,
            "sig": ops.trace_sig(rd, traces[:1], verdict + repr([v["threads"] for v in case["variants"]])),
            "faults": ops.fault_counts(traces),
            "probes": {"variants_run": inv - 1, "max_open_inworld_fds": max(t.maxfd for t in traces),
                       **({"open_file_budget_runs": 1, "open_file_budget_runs_that_reached_the_limit_of_75": int(budget_probe == 75)} if budget_probe is not None else {})},
            "sim_ns": 0,
            "invocations": inv,
            "info": {"roots": case["roots"], "gflags": case["gflags"], "variants": len(case["variants"]), "ref_rc": ref.rc},
        }
