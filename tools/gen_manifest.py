#!/usr/bin/env python3
"""Writes /verif/MANIFEST.json from the table below (kept in one place so it is always valid)."""
import json, os, sys
V = os.path.dirname(os.path.dirname(os.path.abspath(__file__)))
sys.path.insert(0, V)

CHECKS = {
 # id: (level, engine, technique, level text, level note, design ref)
 "C01": ("exploration", "A", "deterministic simulation: seeded worlds/configs, real binary under libc seam with short reads, delays, knob overrides; direct byte-comparison oracle",
         "Seeded exploration of (world x configuration x I/O schedule); every reported group is re-checked by direct byte comparison (transform: same command run by the driver). Evidence, not proof; hash collisions excluded.",
         "trusts the driver's own file reads and coreutils; thread interleavings steered, not enumerated", "4/C01"),
 "C02": ("exploration", "A", "deterministic simulation: two real processes linked by a real report on a simulated clock; inventory oracle before/after",
         "Seeded (world x group options x report format x operation x dedupe options); oracle: content conservation, max(1,n) untouched replicas per group (documented replica rule), unlisted paths untouched, original paths read back, moved bytes at the mapped target.",
         "replica rule re-implemented from the documentation; FICLONE is a stub; schedules steered not enumerated", "4/C02"),
 "C03": ("exploration", "A", "deterministic simulation: real binary under libc seam vs executable reference partition model",
         "Report of the real binary must equal the reference partition (content classes filtered by the documented replica rule) for every sampled world/config/fault mode.",
         "selection restricted to unambiguous cases (C09 decides selection); reference model written from the documentation", "4/C03"),
 "C04": ("exploration", "A", "deterministic simulation: histories on a simulated clock with actor edits injected at rendezvous points inside and between the real group and dedupe runs",
         "Seeded histories (edit kind x position x operation x report format); in thorough additionally every recorded pause point x every edit kind x every operation on fixed scenario worlds. Oracle: content conservation from the state after the last edit.",
         "serial group run so that a pause point is an exact position; edits always move mtime to the simulated now; kernel-level torn writes not modelled", "4/C04"),
 "C05": ("fault_enumeration", "A", "deterministic simulation: crash/errno injection at every recorded mutating call position (and pairs) of scenario worlds",
         "Exhaustive over the recorded mutating-call positions of the scenario set: crash before/after and 5 errnos at each k, plus pairs; oracle over the final inventory, warnings and the Processed count.",
         "process-kill model (completed syscalls durable); serial mode for global positions; FICLONE is an atomic stub", "4/C05"),
 "C15": ("fault_enumeration", "A", "deterministic simulation: errno/EOF injection and actor-driven vanishing at every recorded read-side call of scenario worlds, pairs on two entries",
         "Exhaustive over the recorded (call kind, path, ordinal) positions of the scenario set x {EACCES, EIO, ENOENT, EOF, real vanishing}; pairs sampled (quick) / all first-stage pairs (thorough). Oracle: exit 0, report == reference partition minus a subset of the faulted entry, warning when the outcome changed, a partially read file never grouped with another inode.",
         "serial run; 'entry' read as the file (inode with all its scanned paths); faults on the input roots themselves excluded", "4/C15"),
 "C20": ("exploration", "A", "deterministic simulation: a second real process holding fcntl locks (and F_SETLK failing at the seam) for every single/pair choice of droppable members",
         "Exhaustive over 'which droppable member(s) are locked' (singles and pairs) per scenario world x 5 operations x {default, --no-lock} x {real holder, EAGAIN, EACCES at the seam}; thorough adds seeded worlds. Oracle: locked paths untouched and reported, others processed as in the lock-free run, counts.",
         "serial mode; the lock-free twin run defines the droppable set; fcntl locks are per inode (hard links of a locked file count as locked)", "4/C20"),
 "C06": ("exploration", "A", "deterministic simulation: real binary vs executable replica-counting model, plus metamorphic root-respelling runs",
         "Seeded link structures x flag combinations x root spellings; report must equal the documented replica model and be identical under respelling of the roots.",
         "reference model written from the documentation; plain names only", "4/C06"),
 "C07": ("exploration", "A", "deterministic simulation: seam-level read-only monitor on the scanned roots (fclones and its transform children) plus full inventories incl. directory mtimes",
         "Seeded dedicated runs over every transform I/O mode x read/ignore/fail/missing programs, --cache, -o FILE, all formats, and all 5 dedupe operations with --dry-run; oracle: no mutating libc call under a root, identical inventory, empty TMPDIR, cache under XDG_CACHE_HOME.",
         "atime not compared; the documented exception (program writing $IN under --no-copy) judged on fclones' own calls only", "4/C07"),
 "C08": ("exploration", "A", "deterministic simulation: real group+dedupe processes with seam-relabelled timestamps vs executable model of the documented selection rule",
         "Seeded groups (hard-link subsets, roots, nesting, tied timestamps) x option sets given on the command line or inherited from the report header; the paths changed by the real run (seam trace) and the paths named by --dry-run must both equal the model's drop set; any panic/non-zero exit is a violation.",
         "globs restricted to literal/*/**/?; plain names; model written from the documentation", "4/C08"),
 "C09": ("exploration", "A", "deterministic simulation: real parallel walk under main-pool sizes 1/2/16 vs executable reference walk",
         "Seeded trees (nesting, hidden entries, ignore files, file/dir symlinks incl. dangling and cyclic, metacharacter and non-ASCII directory names) x selection options x overlapping roots; the selected set must equal the reference walk and be identical for all pool sizes.",
         "glob forms literal/*/**/?/[..]; regex incl. alternations; ignore files only in simple forms, with --follow-links judged as 'selected iff not filtered along some route' (known finding c09-follow-links-route-order); excluded directories excluded with their subtree; --one-fs via seam-relabelled st_dev", "4/C09"),
 "C10": ("exploration", "A", "deterministic simulation: report as a faulted stream between two real processes (every cut offset, chunked delivery, writer ENOSPC/EIO/kill), paths observed at the seam",
         "Round trip observed through the raw paths the reader stats and through text-vs-JSON equivalence of effects on hostile-name worlds; exhaustive cut offsets of scenario text reports (JSON sampled); chunked stdin; failing/killed report writer.",
         "every string of 1..2 (thorough 1..3) symbols of a 17-symbol troublesome alphabet as file and directory name, longer names and paths up to PATH_MAX from the generator; hostile working directories and argument vectors; serial reader", "4/C10"),
 "C11": ("exploration", "A", "deterministic simulation: dry-run script executed/tokenised by real bash vs seam trace and final tree of the real run; pool sizes 1/2/16 with seeded delays",
         "Seeded worlds (shell-hostile names) x 5 operations x options: bash-run tree == real-run tree (remove/link/soft link), script operations == traced operations (all five), summaries equal, groups in report order, script independent of the pool size.",
         "bash as reference shell; temp suffixes masked; move/dedupe compared at operation level only", "4/C11"),
 "C12": ("exploration", "A", "deterministic simulation: multi-run histories on a simulated clock with a persistent private cache, inode reuse by seam relabelling, earlier run killed inside the cache directory",
         "Seeded histories of length 1..6 (edits x per-step configuration); after every step the cached report body must equal the uncached twin's and the cached run must exit 0; ~20% of histories kill one run at a write/pwrite/fsync/open in the cache directory.",
         "every content change moves mtime(ms) or length; sled runs as real code, its internal threads are not scheduled", "4/C12"),
 "C13": ("exploration", "A", "deterministic simulation: repeated runs under seeded pool specifications, root permutations, --stdin and seeded per-call delays (steered schedules); hang detection",
         "Per world a reference run and V variants (thread specs incl. single-thread pools and 64, root permutations, --stdin, delay plans): byte-identical report bodies; 4 configuration variants (hash fn, prefix/suffix sizes, device kind, cache): equal partition; every run must exit within 60 s.",
         "interleavings steered by delays, not enumerated; the rehash pipeline's schedules are the business of the shuttle engine where it is built", "4/C13"),
 "C14": ("exploration", "A", "deterministic simulation: the same simulated run reported in four formats (stdout / -o), also under short reads and an unreadable inode; invariant checker with the documented replica rule",
         "Seeded worlds x filters x --isolate/-H/-S/transform: header statistics recomputed from the body, per-group counts, ordering, absolute paths, isolate-root contiguity, and identical group structure across text/JSON/CSV/fdupes.",
         "redundant count accepts both documented computations when a group holds hard links; path order checked for root contiguity here, permutation invariance in C13", "4/C14"),
 "C18": ("exploration", "A", "deterministic simulation: move under injected rename/copy/unlink/mkdir failures, simulated second device, pre-populated targets; inventory oracle",
         "Seeded worlds x target variants x pre-existing entries at mapped locations x fault plans; mapping, no overwrite/alteration of existing entries, source removed only with complete bytes at the target, collided sources kept, no stray files, content conservation.",
         "second device simulated by the device-pin hook plus EXDEV at the seam; symlink members not generated", "4/C18"),
 "C19": ("exploration", "B", "deterministic simulation: the real semaphore.rs under shuttle's controlled scheduler (seeded random + PCT), nondeterministic wakee, injected spurious wake-ups, persisted replayable schedules",
         "Millions of seeded schedules of 2..4 threads x 1..3 acquire/release pairs x 0..2 permits with guards released on the acquiring or on another thread; invariants: holders <= permits at every acquisition, no deadlock/step overrun, full permit count available afterwards. DFS on the smallest scenario as a cross-check. Plus 36 fixed fault-injection cases outside shuttle (std primitives) in which a holder unwinds while holding guards.",
         "shuttle's primitives stand for std's; exploration saturates the small bounded space in practice but is not an enumeration; shuttle cannot run a release during unwinding, that slice uses real threads and is not schedule-controlled", "3/B1, 4/C19"),
}
NOT_APPLICABLE = {
 "C16": "pure function of (glob pattern, string): no schedule, clock, fault, stream or history for a simulator to control; needs bounded-exhaustive input enumeration against a reference matcher, which is a different technique (DESIGN section 5)",
 "C17": "pure function of a byte string (and of bash as reference decoder): nothing for deterministic simulation to schedule or fault (DESIGN section 5)",
}
PLANNED = "check not built yet in this round (planned: DESIGN section 4); not claimed until its check exists"

def main():
    props = [json.loads(l) for l in open(os.path.join(V, "properties.jsonl"))]
    checks = []
    for pid, (level, eng, tech, text, note, ref) in sorted(CHECKS.items()):
        checks.append({
            "property_id": pid,
            "quick_cmd": "./check %s --tier quick" % pid,
            "thorough_cmd": "./check %s --tier thorough" % pid,
            "evidence_file": "/verif/evidence/%s.json" % pid,
            "replay_cmd_template": "./check %s --replay {path}" % pid,
            "engine": "simfs" if eng == "A" else "shuttle",
            "level_claimed": {"category": level, "text": text, "design_ref": "DESIGN.md section " + ref},
            "level_note": note,
            "technique": tech,
        })
    na = []
    for p in props:
        if p["id"] in CHECKS:
            continue
        na.append({"property_id": p["id"], "reason": NOT_APPLICABLE.get(p["id"], PLANNED)})
    hooks = [l.split()[0] for l in os.popen("git -C /repo log --format='%h %s' fec768b..HEAD").read().splitlines() if "verif hook" in l]
    m = {
        "version": 1,
        "setup_cmd": "./setup.sh",
        "hooks": {
            "guard": "--cfg fclones_verif (and --cfg fclones_verif_shuttle for engine B)",
            "enable": "RUSTFLAGS='--cfg fclones_verif' cargo build -p fclones --bin fclones --offline (target dir /verif/.target); hooks are driven by FCLONES_VERIF_* environment variables read only under the cfg",
            "baseline_off_cmd": "cd /repo && cargo test --workspace --no-fail-fast --offline",
            "source_commits": hooks,
            "add_only": True,
        },
        "engines": [
            {"name": "simfs", "path": "/verif/sim", "serves_properties": sorted(k for k, v in CHECKS.items() if v[1] == "A"),
             "kind_free_text": "deterministic world simulator: real fclones binary under an LD_PRELOAD libc seam (faults, short I/O, crash, simulated clock and getrandom, rendezvous actors, stat relabelling, FICLONE stub), seeded Python driver, reference models, minimiser, replay files"},
            {"name": "shuttle", "path": "/verif/shuttle-sim", "serves_properties": sorted(k for k, v in CHECKS.items() if v[1] == "B"),
             "kind_free_text": "real semaphore.rs / rehash pipeline compiled against shuttle's scheduler-controlled sync primitives; seeded random and PCT schedules, persisted failing schedules"},
        ],
        "checks": checks,
        "not_applicable": na,
        "notes": "Single entry point ./check <id> --tier quick|thorough [--replay file]; exit 0 held / 1 VIOLATION / 2 harness error. VERIF_SEED selects the batch. known_findings.json lists genuine defects (open and fixed).",
    }
    json.dump(m, open(os.path.join(V, "MANIFEST.json"), "w"), indent=1)
    print("MANIFEST.json: %d checks, %d not claimed" % (len(checks), len(na)))

if __name__ == "__main__":
    main()
