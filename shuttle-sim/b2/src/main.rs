fn main() { println!("{}", std::any::type_name::<fclones::GroupConfig>()); }
