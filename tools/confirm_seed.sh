#!/bin/bash
# tools/confirm_seed.sh C12 <name>: re-run a sub-agent's demonstration both ways in its scratch worktree,
# copy the deliverables to /verif/seeded/<name>/ and print the two exit codes.
ID=$1; NAME=$2; WT=${3:-/tmp/seed-$ID}
set -u
mkdir -p /verif/seeded/$NAME && cp -r $WT/SEED/* /verif/seeded/$NAME/
cd $WT || exit 2
DEMO=$(ls SEED | grep -E '^demo\.(sh|py)$' | head -1)
run() { if [[ $DEMO == *.py ]]; then python3 SEED/$DEMO; else bash SEED/$DEMO; fi; }
git checkout -q -- fclones; git apply SEED/patch.diff || { echo "patch does not apply"; exit 2; }
(CARGO_TARGET_DIR=$WT/target cargo build --offline -q 2>/dev/null); run > /tmp/confirm-$ID-with.txt 2>&1; W=$?
git apply -R SEED/patch.diff
(CARGO_TARGET_DIR=$WT/target cargo build --offline -q 2>/dev/null); run > /tmp/confirm-$ID-without.txt 2>&1; WO=$?
echo "$ID $NAME: demo with change rc=$W, without rc=$WO"
