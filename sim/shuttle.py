"""Engine B driver: builds and runs the shuttle harnesses against the real sources in /repo."""
import fcntl
import json
import os
import subprocess
import time

from . import core
from .core import HarnessError, VERIF

B1_DIR = os.path.join(VERIF, "shuttle-sim", "b1")
B1_TARGET = os.path.join(VERIF, ".target-b1")
B1_BIN = os.path.join(B1_TARGET, "release", "fclones-shuttle-b1")
B2_DIR = os.path.join(VERIF, "shuttle-sim", "b2")
B2_TARGET = os.path.join(VERIF, ".target-b2")
B2_BIN = os.path.join(B2_TARGET, "release", "fclones-shuttle-b2")


def _build(crate_dir, target, binpath, rustflags, extra_env=None):
    os.makedirs(core.BUILD, exist_ok=True)
    lock = open(os.path.join(core.BUILD, "lock-" + os.path.basename(crate_dir)), "w")
    fcntl.flock(lock, fcntl.LOCK_EX)
    try:
        env = dict(os.environ)
        env.update({"CARGO_NET_OFFLINE": "true", "CARGO_TARGET_DIR": target, "RUSTFLAGS": rustflags, "VERIF_REPO": core.REPO})
        if extra_env:
            env.update(extra_env)
        r = subprocess.run(["cargo", "build", "--release", "--offline", "-q"], cwd=crate_dir, env=env,
                           stdout=subprocess.PIPE, stderr=subprocess.STDOUT)
        if r.returncode != 0 or not os.path.exists(binpath):
            raise HarnessError("shuttle harness build failed (%s):\n%s" % (crate_dir, r.stdout.decode(errors="replace")[-4000:]))
    finally:
        fcntl.flock(lock, fcntl.LOCK_UN)
        lock.close()


def _scratch():
    """a scratch tree is under test (VERIF_REPO set by tools/seedtest.py): keep its harness builds
    apart from those for /repo, so that concurrent runs never share a binary or a shadow manifest"""
    return core.REPO != "/repo"


def build_b1():
    global B1_TARGET, B1_BIN
    if _scratch():
        B1_TARGET = core.TARGET + "-b1"
        B1_BIN = os.path.join(B1_TARGET, "release", "fclones-shuttle-b1")
    _build(B1_DIR, B1_TARGET, B1_BIN, "--cfg fclones_verif_shuttle")


def write_shadow_manifest(d=None):
    """/verif/.build/fclones-shadow/Cargo.toml: the fclones package with its own dependencies,
    `[lib] path` pointing at the sources under test, plus the shuttle dependency.  The repository's
    Cargo.toml and Cargo.lock stay untouched."""
    import re
    repo = core.REPO
    src = open(os.path.join(repo, "fclones", "Cargo.toml")).read()
    src = re.sub(r"\n\[dev-dependencies\][^\[]*", "\n", src)
    src = src.replace('[dependencies]\n', '[dependencies]\nshuttle = "0.9.3"\n', 1)
    src = src.replace('edition = "2021"\n', 'edition = "2021"\nautobins = false\nautotests = false\nautoexamples = false\nautobenches = false\n', 1)
    src = src.replace('readme = "README.md"\n', '')
    src += '\n[lib]\nname = "fclones"\npath = "%s/fclones/src/lib.rs"\n\n[workspace]\n' % repo
    d = d or os.path.join(core.BUILD, "fclones-shadow")
    os.makedirs(d, exist_ok=True)
    path = os.path.join(d, "Cargo.toml")
    old = open(path).read() if os.path.exists(path) else None
    if old != src:
        open(path, "w").write(src)


def build_b2():
    global B2_TARGET, B2_BIN
    os.makedirs(core.BUILD, exist_ok=True)
    crate = B2_DIR
    if _scratch():
        import shutil
        base = core.TARGET + "-b2"
        B2_TARGET = os.path.join(base, "target")
        B2_BIN = os.path.join(B2_TARGET, "release", "fclones-shuttle-b2")
        crate = os.path.join(base, "crate")
        shadow = os.path.join(base, "shadow")
        if os.path.exists(crate):
            shutil.rmtree(crate)
        shutil.copytree(B2_DIR, crate)
        m = open(os.path.join(crate, "Cargo.toml")).read().replace('"../../.build/fclones-shadow"', '"%s"' % shadow)
        open(os.path.join(crate, "Cargo.toml"), "w").write(m)
        write_shadow_manifest(shadow)
    else:
        write_shadow_manifest()
    _build(crate, B2_TARGET, B2_BIN, "--cfg fclones_verif --cfg fclones_verif_shuttle")


def run_bin(binpath, args, timeout=3600, env=None):
    e = dict(os.environ)
    if env:
        e.update(env)
    r = subprocess.run([binpath] + [str(a) for a in args], stdout=subprocess.PIPE, stderr=subprocess.PIPE, timeout=timeout, env=e)
    last = None
    for line in r.stdout.decode(errors="replace").splitlines():
        line = line.strip()
        if line.startswith("{") and line.endswith("}"):
            try:
                last = json.loads(line)
            except ValueError:
                pass
    if last is None and r.returncode == -6 and b"serializing schedule" in r.stderr:
        # the failing task's panic ran into a second panic while the execution was torn down (guards
        # dropped during unwinding): shuttle has already persisted the schedule; count it as a failure
        import re
        m = re.search(rb"panicked at [^\n]*\n([^\n]*)", r.stderr)
        last = {"failed": True, "executions": 0, "acquisitions": 0, "waits": 0, "spurious_fired": 0, "moved_guards": 0,
                "scen_hash": 0, "wall_s": 0.0, "message": (m.group(1).decode(errors="replace") if m else "abort during failure")[:300]}
        last["rc"] = 1
        last["stderr_tail"] = r.stderr.decode(errors="replace")[-800:]
        return last
    if last is None or r.returncode not in (0, 1):
        raise HarnessError("shuttle harness crashed rc=%s: %s %s" % (r.returncode, r.stdout[-500:], r.stderr[-1500:]))
    last["rc"] = r.returncode
    last["stderr_tail"] = r.stderr.decode(errors="replace")[-1500:]
    return last


def parallel(binpath, arglists, workers=16, env=None):
    """run many harness processes, at most `workers` at a time; returns results in input order"""
    from concurrent.futures import ThreadPoolExecutor
    with ThreadPoolExecutor(max_workers=workers) as ex:
        return list(ex.map(lambda a: run_bin(binpath, a, env=env), arglists))
