"""C20 - files locked by another process are left alone.

A second real process (the lock holder) takes fcntl write locks on chosen droppable members -
every single member and every pair - then each dedupe operation runs with and without
--no-lock.  Second slice: no holder, F_SETLK fails at the seam with EAGAIN/EACCES."""
import itertools
import os
import random
import subprocess
import sys

from .. import core, ops
from ..core import T0_NS, b2s, s2b, rule, stable_hash
from ..world import World, inventory, read_through, inv_brief
from . import c05

ID = "C20"
LEVEL = "exploration"
BUDGET = {"quick": {"wall_s": 400}, "thorough": {"wall_s": 3000}}
EXHAUSTIVE = {"quick": True, "thorough": True}
RULE = ("scenario worlds x 5 operations x every single droppable member and every pair of droppable members locked "
        "by a foreign process (real fcntl F_SETLK write lock, read lock, or write lock on a byte range only, held by a helper process) x {default, --no-lock}; plus "
        "the same choices with F_SETLK failing at the seam (EAGAIN / EACCES) instead of a real holder; thorough adds "
        "seeded worlds. non-trivial = at least one locked path is droppable in the lock-free run; distinct = distinct "
        "trace signatures")
ASSUMPTIONS = [
    "only droppable members are locked (fclones never opens retained files for writing)",
    "serial mode (RAYON_NUM_THREADS=1); the lock-free twin run decides which members are droppable",
]
REAL_VS_STUB = {"foreign lock holder": "real second process holding fcntl write or read locks (slice 1); errno injected on F_SETLK at the seam (slice 2)"}

HOLDER = r'''
import fcntl, os, sys
fds = []
kind = fcntl.LOCK_SH if sys.argv[1] == "sh" else fcntl.LOCK_EX
for p in sys.argv[2:]:
    fd = os.open(os.fsencode(p), os.O_RDWR)
    if sys.argv[1] == "range":
        fcntl.lockf(fd, kind | fcntl.LOCK_NB, 100, 1000, os.SEEK_SET)   # bytes 1000..1099 only (may lie beyond EOF)
    else:
        fcntl.lockf(fd, kind | fcntl.LOCK_NB)
    fds.append(fd)
sys.stdout.write("ready\n"); sys.stdout.flush()
sys.stdin.read()
'''


def scenarios(tier, seed):
    q_ = c05.scenarios("quick")
    # ... and the scenario whose move target lies on a second device (the move is then a copy and a removal)
    sc = q_[:2] + [s_ for s_ in q_[2:] if s_.get("dev2")]
    # a report made with -S whose RETAINED member is a symbolic link (it sorts first; its target lies outside the
    # scanned root): the droppable members are ordinary files and can be locked like any other
    w = World()
    w.add_file("o/x", {"fam": 30, "len": 60, "flips": []})
    w.add_symlink("r/0lnk", "../o/x")
    for nm in ("a", "b", "d/c"):
        w.add_file("r/" + nm, {"fam": 30, "len": 60, "flips": []})
    w.add_dir("T")
    sc.append({"name": "retained-symlink", "world": w.to_json(), "roots": ["r"], "gargs": ["-S"]})
    if tier == "thorough":
        sc = c05.scenarios("thorough")
        sc = [s for s in sc if s["name"] not in ("symlinks",)]
        rng = random.Random(stable_hash(seed, ID, "worlds"))
        for k in range(32):
            w = World()
            for g in range(rng.randint(1, 3)):
                n = rng.choice([1, 50, 700])
                for j in range(rng.randint(2, 4)):
                    w.add_file("r/%s/g%dm%d" % (rng.choice(["a", "b", "a/c"]), g, j), {"fam": 20 + g, "len": n, "flips": []})
            w.add_dir("T")
            sc.append({"name": "seeded%d" % k, "world": w.to_json(), "roots": ["r"], "gargs": []})
    return sc


def twin(sc, op):
    with core.RunDir("c20twin") as rd:
        g = c05._setup(rd, sc)
        b = inventory(rd.world)
        r = c05._dedupe(rd, sc, op, g.out, [])
        a = inventory(rd.world)
        drop = sorted(b2s(p) for p in b if b[p].type == "f" and (p not in a or not b[p].untouched(a[p])))
        if op == "dedupe":
            for e in r.trace.main("ficlone"):
                rel = ops.relw(rd, e.path)
                if e.ret == 0 and rel is not None and rel in b and b2s(rel) not in drop:
                    drop.append(b2s(rel))
        return sorted(drop), ops.processed_count(r)


def gen_cases(tier, seed):
    for sc in scenarios(tier, seed):
        for op in sc.get("ops") or ops.OPS:
            drop, n_clean = twin(sc, op)
            subsets = [(d,) for d in drop] + list(itertools.combinations(drop, 2))
            if tier == "quick":
                subsets = subsets[:8]
            elif len(subsets) > 12:
                subsets = subsets[:12]
            for s in subsets:
                for nolock in (False, True):
                    # "holder-sh": the foreign process holds a shared (read) lock - it conflicts with
                    # the exclusive lock a process that is about to replace the file has to take
                    # "holder-range": the foreign lock covers a byte range only - any range conflicts with a lock on
                    # the whole file
                    # "holder+ETXTBSY" / "holder+EROFS": a real holder, and the open-for-write that precedes the lock
                    # attempt fails (the file is a running program / on a read-only mount): not being able to even try
                    # the lock is no licence to proceed
                    for mode in ("holder", "holder-sh", "holder-range", "holder+ETXTBSY", "holder+EROFS", "EAGAIN", "EACCES"):
                        if nolock and mode in ("EACCES", "holder-sh", "holder-range", "holder+ETXTBSY", "holder+EROFS"):
                            continue
                        yield {"sc": sc, "op": op, "locked": list(s), "nolock": nolock, "mode": mode,
                               "drop": drop, "n_clean": n_clean}


def shrink(case):
    if len(case["locked"]) > 1:
        for i in range(len(case["locked"])):
            c = dict(case); c["locked"] = case["locked"][:i] + case["locked"][i + 1:]; yield c


def run_case(case):
    sc, op = case["sc"], case["op"]
    viol = []
    with core.RunDir("c20") as rd:
        g = c05._setup(rd, sc)
        before = inventory(rd.world)
        locked = [s2b(p) for p in case["locked"]]
        drop = [s2b(p) for p in case["drop"]]
        holder = None
        plan = []
        if case["mode"].startswith("holder"):
            holder = subprocess.Popen([sys.executable, "-c", HOLDER, {"holder-sh": "sh", "holder-range": "range"}.get(case["mode"], "ex")] + [os.path.join(rd.world, p) for p in case["locked"]],
                                      stdin=subprocess.PIPE, stdout=subprocess.PIPE)
            if holder.stdout.readline().strip() != b"ready":
                holder.kill()
                raise core.HarnessError("lock holder failed to start")
            if "+" in case["mode"]:
                for p in locked:
                    plan.append(rule(kind="openw", path=b2s(ops.absw(rd, p)), act="errno:" + case["mode"].split("+")[1], count="inf"))
        else:
            for p in locked:
                plan.append(rule(kind="setlk", path=b2s(ops.absw(rd, p)), act="errno:" + case["mode"], count="inf"))
        try:
            res = ops.dedupe(rd, op, g.out, extra=sc.get("dargs", []) + (["--no-lock"] if case["nolock"] else []),
                             target=os.path.join(rd.world, "T"), plan=plan, env=c05._env(rd, sc),
                             now_ns=T0_NS + 60 * 10**9, seed=11, threads_env=1)
        finally:
            if holder is not None:
                holder.stdin.close()
                holder.wait()
        after = inventory(rd.world)

        def V(clause, detail):
            viol.append({"clause": clause, "detail": "%s | op=%s locked=%s nolock=%s mode=%s | stderr=%s | before=%s | after=%s" % (
                detail, op, case["locked"], case["nolock"], case["mode"], res.err.decode("utf-8", "replace")[-600:],
                inv_brief(before), inv_brief(after))})

        n = ops.processed_count(res)
        # fcntl locks belong to the inode: every droppable path of a locked inode is locked as well
        lock_ids = {before[p].ident for p in locked}
        same_inode = [p for p in drop if before[p].ident in lock_ids and p not in locked]
        if case["mode"] == "holder":
            locked = locked + same_inode
        if res.timed_out:
            V("terminates", "dedupe hung")
        processed = set()
        for p in drop:
            if c05._fully_processed(op, p, before[p], before, after, rd, None):
                processed.add(p)
        if op == "dedupe":
            for ev in res.trace.main("ficlone"):
                rel = ops.relw(rd, ev.path)
                if ev.ret == 0 and rel in drop:
                    processed.add(rel)
        if case["nolock"]:
            if processed != set(drop):
                V("no-lock-equals-lock-free", "--no-lock given but %s not processed" % sorted(b2s(p) for p in set(drop) - processed))
            if n is not None and n != case["n_clean"]:
                V("no-lock-equals-lock-free", "--no-lock: Processed %s, lock-free run processed %s" % (n, case["n_clean"]))
        else:
            for p in locked:
                a = after.get(p)
                if a is None or not before[p].untouched(a):
                    V("locked-untouched", "%r is locked by another process but was %s" % (b2s(p), "removed/moved" if a is None else "modified: %r" % a))
                elif p in drop:
                    w = res.warnings()
                    nm = os.path.basename(p).decode("utf-8", "replace")
                    nlock = len([l for l in w if "lock" in l.lower()])
                    # names are printed shell-quoted; fall back to counting the lock warnings
                    # (a name with a quote in it is printed as $'..\'..': compare with the backslashes taken out)
                    if not any(nm in l or nm in l.replace("\\", "") for l in w) and nlock < len(set(locked) & set(drop)):
                        V("lock-failure-reported", "no warning names the locked file %r" % b2s(p))
            others = set(drop) - set(locked) - set(same_inode)
            if not others <= processed:
                V("others-processed", "unlocked droppable files not processed: %s" % sorted(b2s(p) for p in others - processed))
            if n is not None:
                exp_n = len(set(drop) - set(locked))
                lo_n = len(set(drop) - set(locked) - set(same_inode))
                if not (lo_n <= n <= exp_n) and not (op == "dedupe" and n <= len(drop)):
                    V("locked-not-counted", "Processed %d, expected %d (= %d droppable - %d locked)" % (n, exp_n, len(drop), len(set(locked) & set(drop))))
                if op == "dedupe" and n != len(processed):
                    V("locked-not-counted", "Processed %d but %d clone operations succeeded" % (n, len(processed)))
            # nothing else changed
            for p, e in before.items():
                if e.type == "d" or p in drop:
                    continue
                a = after.get(p)
                if a is None or not e.untouched(a):
                    V("retained-untouched", "%r changed" % b2s(p))
        verdict = ",".join(sorted({v["clause"] for v in viol}))
        setlk = [e for e in res.trace.main("setlk")]
        return {
            "violations": viol,
            "nontrivial": bool(set(locked) & set(drop)),
            "sig": ops.trace_sig(rd, [res.trace], verdict + case["mode"]),
            "faults": dict(ops.fault_counts([res.trace]), **({"foreign_lock_held": len(locked)} if case["mode"].startswith("holder") else {})),
            "probes": {"setlk_calls": len(setlk), "setlk_failed": len([e for e in setlk if e.ret < 0]),
                       "nolock_runs": int(case["nolock"]), "op_" + op: 1},
            "sim_ns": 60 * 10**9,
            "invocations": 2,
            "info": {"scenario": sc["name"], "op": op, "locked": case["locked"], "nolock": case["nolock"], "mode": case["mode"],
                     "processed": n, "rc": res.rc},
        }
