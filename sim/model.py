"""Small executable reference models (documented behaviour, written from the README/--help texts,
not from the implementation): scan selection, content partition, replica counting, dedupe
selection, move mapping."""
import hashlib
import os
import stat


# ----------------------------------------------------------------------------- scan

def _canon_root(p):
    """`group` resolves directory roots (and the parent of a file root) through symlinks."""
    try:
        st = os.stat(p)
    except OSError:
        return None
    if stat.S_ISDIR(st.st_mode):
        return os.path.realpath(p)
    return os.path.join(os.path.realpath(os.path.dirname(p)), os.path.basename(p))


def load_ignore(d):
    """simple documented forms only: `name`, `dir/`, `*.ext`, `**/name` -> list of (pattern, dirs_only)"""
    for nm in (b".gitignore", b".fdignore"):
        p = os.path.join(d, nm)
        if os.path.isfile(p):
            out = []
            for line in open(p, "rb").read().split(b"\n"):
                line = line.strip()
                if not line or line.startswith(b"#"):
                    continue
                dirs_only = line.endswith(b"/")
                if dirs_only:
                    line = line[:-1]
                if line.startswith(b"**/"):
                    line = line[3:]
                out.append((line, dirs_only))
            return out
    return None


def _ignored(stack, path, is_dir):
    import fnmatch
    nm = os.path.basename(path)
    for rules in stack:
        for pat, dirs_only in rules:
            if dirs_only and not is_dir:
                continue
            if fnmatch.fnmatchcase(nm.decode("latin-1"), pat.decode("latin-1")):
                return True
    return False


def scan(roots, *, hidden=False, follow=False, report_links=False, depth=None, min_size=1,
         max_size=None, name_filter=None, blocked=(), honour_ignore=False, prune=None, one_fs=False, dev_of=None):
    """-> dict: selected absolute path (bytes) -> (ident, size).
    roots: absolute bytes paths as the user gave them (after joining with cwd)."""
    selected = {}
    visited = {}

    def select(path):
        try:
            st = os.stat(path)
        except OSError:
            return
        if not stat.S_ISREG(st.st_mode):
            return
        if st.st_size < min_size or (max_size is not None and st.st_size > max_size):
            return
        if name_filter is not None and not name_filter(path):
            return
        selected[path] = ((st.st_dev, st.st_ino), st.st_size)

    def devof(p):
        if dev_of is not None:
            return dev_of(p)
        try:
            return os.stat(p).st_dev
        except OSError:
            return None

    root_dev = [None]

    def visit(path, level, stack=()):
        if path in blocked:
            return
        try:
            lst = os.lstat(path)
        except OSError:
            return
        name = os.path.basename(path)
        if not hidden and name.startswith(b"."):
            return
        if follow:
            # cycle protection only: an entry reached again at a smaller nesting level (overlapping
            # roots, links) is walked again, so that the depth limit is counted from the nearest root
            # ... and under the same ignore rules: an entry reached again along a route that carries other
            # ignore files is judged again (selected = not ignored along SOME route from an input path)
            vkey = (path, frozenset(r for rules in stack for r in rules)) if honour_ignore else path
            if vkey in visited and visited[vkey] <= level:
                return
            visited[vkey] = level
        if honour_ignore and _ignored(stack, path, stat.S_ISDIR(lst.st_mode)):
            return
        if stat.S_ISREG(lst.st_mode):
            select(path)
        elif stat.S_ISDIR(lst.st_mode):
            if prune is not None and prune(path):
                return
            if one_fs and devof(path) != root_dev[0]:
                return          # --one-fs: nested mount points are skipped
            # a file d levels below a root is selected iff d <= depth
            if depth is not None and level >= depth:
                return
            if honour_ignore:
                rules = load_ignore(path)
                if rules:
                    stack = tuple(stack) + (rules,)
            try:
                names = os.listdir(path)
            except OSError:
                return
            for nm in names:
                visit(os.path.join(path, nm), level + 1, stack)
        elif stat.S_ISLNK(lst.st_mode):
            if not (follow or report_links):
                return
            try:
                tst = os.stat(path)
                tgt = os.readlink(path)
            except OSError:
                return
            if stat.S_ISREG(tst.st_mode) and report_links:
                select(path)
                return
            if follow and one_fs and devof(path) != root_dev[0]:
                return          # --one-fs: links crossing file systems are not followed
            if follow:
                if not os.path.isabs(tgt):
                    tgt = os.path.join(os.path.dirname(path), tgt)
                c = _canon_root(tgt)
                if c is not None:
                    visit(c, level, stack)

    for r in roots:
        c = _canon_root(r)
        if c is None:
            continue
        try:
            st = os.stat(c)
        except OSError:
            continue
        if stat.S_ISDIR(st.st_mode) and depth == 0:
            continue
        root_dev[0] = devof(c)
        visit(c, 0)
    return selected


# ----------------------------------------------------------------------------- partition / replicas

def read_key(path, transform=None):
    """content key of a path (following links): sha256 of bytes or of the transform output"""
    if transform is not None:
        d = transform(path)
        if d is None:
            return None
        return (len(d), hashlib.sha256(d).hexdigest())
    try:
        with open(path, "rb") as f:
            d = f.read()
    except OSError:
        return None
    return (len(d), hashlib.sha256(d).hexdigest())


def content_keys(selected, transform=None):
    """snapshot of the content key of every selected path (take it BEFORE a run that edits the tree)"""
    return {p: read_key(p, transform) for p in selected}


def partition(selected, transform=None, keys=None):
    """-> {content key: [paths]}"""
    classes = {}
    for p in selected:
        k = keys.get(p) if keys is not None else read_key(p, transform)
        if k is None:
            continue
        classes.setdefault(k, []).append(p)
    return classes


def _under(root, path):
    return path == root or path.startswith(root.rstrip(b"/") + b"/")


def replicas(paths, selected, *, match_links=False, isolate_roots=None):
    """documented replica count of one content class"""
    if isolate_roots:
        n = 0
        rest = []
        for r in isolate_roots:
            if any(_under(r, p) for p in paths):
                n += 1
        for p in paths:
            if not any(_under(r, p) for r in isolate_roots):
                rest.append(p)
        if rest:
            n += len(rest) if match_links else len({selected[p][0] for p in rest})
        return n
    if match_links:
        return len(paths)
    return len({selected[p][0] for p in paths})


def reported(count, *, rf_over=None, rf_under=None, unique=False, transform=False):
    if unique:
        return count < 2
    if rf_under is not None:
        return count < rf_under
    if rf_over is None:
        rf_over = 1
    return count > rf_over


def expected_groups(selected, *, transform=None, match_links=False, isolate_roots=None, rf_over=None,
                    rf_under=None, unique=False, keys=None):
    """-> sorted list of sorted path tuples the report must contain"""
    out = []
    for k, paths in partition(selected, transform, keys).items():
        c = replicas(paths, selected, match_links=match_links, isolate_roots=isolate_roots)
        if reported(c, rf_over=rf_over, rf_under=rf_under, unique=unique, transform=transform is not None):
            out.append(tuple(sorted(paths)))
    return sorted(out)
