"""Engine A core: build, run the real fclones binary under the libsimfs seam, parse traces.

Stdlib only.  Nothing here draws randomness; all choices come from the caller's seeded RNG.
"""
import fcntl
import hashlib
import json
import os
import shutil
import socket
import subprocess
import sys
import threading
import time
import urllib.parse

VERIF = os.path.dirname(os.path.dirname(os.path.abspath(__file__)))
REPO = os.environ.get("VERIF_REPO", "/repo")
BUILD = os.path.join(VERIF, ".build")
TARGET = os.environ.get("VERIF_TARGET", os.path.join(VERIF, ".target"))
SEAM = os.path.join(BUILD, "libsimfs.so")
FCLONES = os.path.join(TARGET, "debug", "fclones")
# no regex metacharacters (such as "-") in the simulated hosts' paths: fclones turns the working
# directory into a literal pattern prefix, and an escaped character in it cuts that prefix short,
# which would mask every bug in prefix-based directory pruning
SHM = "/dev/shm/fclonessim"
GUARD = "--cfg fclones_verif"

T0_NS = 1_700_000_000 * 10**9  # simulated epoch of every world: 2023-11-14 22:13:20 UTC


class HarnessError(Exception):
    """Anything that is the harness' fault (exit 2, never a VIOLATION)."""


# ----------------------------------------------------------------------------- build

def _run(cmd, **kw):
    return subprocess.run(cmd, stdout=subprocess.PIPE, stderr=subprocess.STDOUT, **kw)


def ensure_built(verbose=False):
    """(Re)build the seam and the hooked fclones binary from /repo's current working tree."""
    os.makedirs(BUILD, exist_ok=True)
    lock = open(os.path.join(BUILD, "lock"), "w")
    fcntl.flock(lock, fcntl.LOCK_EX)
    try:
        src = os.path.join(VERIF, "sim", "simfs.c")
        if not os.path.exists(SEAM) or os.path.getmtime(SEAM) < os.path.getmtime(src):
            r = _run(["gcc", "-O1", "-g", "-fPIC", "-shared", "-Wall", "-Wno-array-parameter",
                      "-Wno-nonnull-compare", "-o", SEAM + ".tmp", src, "-ldl", "-lpthread"])
            if r.returncode != 0:
                raise HarnessError("seam build failed:\n" + r.stdout.decode(errors="replace"))
            os.replace(SEAM + ".tmp", SEAM)
        env = dict(os.environ)
        env.update({"CARGO_NET_OFFLINE": "true", "CARGO_TARGET_DIR": TARGET, "RUSTFLAGS": GUARD})
        r = _run(["cargo", "build", "-p", "fclones", "--bin", "fclones", "--offline", "-q"],
                 cwd=REPO, env=env)
        if r.returncode != 0 or not os.path.exists(FCLONES):
            raise HarnessError("fclones build failed:\n" + r.stdout.decode(errors="replace")[-4000:])
        if verbose:
            print("built", FCLONES, file=sys.stderr)
    finally:
        fcntl.flock(lock, fcntl.LOCK_UN)
        lock.close()


# ----------------------------------------------------------------------------- bytes <-> json

def s2b(s):
    """JSON-safe str (latin-1 view of bytes) -> bytes"""
    return s.encode("latin-1")


def b2s(b):
    return b.decode("latin-1")


def pct(b):
    if isinstance(b, str):
        b = s2b(b)
    if b == b"":
        return "%~"
    return urllib.parse.quote_from_bytes(b, safe="/._-")


def unpct(s):
    if s == "%~":
        return b""
    return urllib.parse.unquote_to_bytes(s)


def stable_hash(*parts):
    h = hashlib.sha256()
    for p in parts:
        h.update(repr(p).encode())
        h.update(b"\0")
    return int.from_bytes(h.digest()[:8], "big")


# ----------------------------------------------------------------------------- plan rules

def rule(kind="*", act="errno:EIO", path=None, suffix=None, prefix=None, path2=None, ord=None,
         mseq=None, seq=None, proc=None, count=None, id=None):
    """One plan rule as a JSON-able dict; paths are latin-1 strs or bytes."""
    r = {"kind": kind, "act": act}
    for k, v in (("path", path), ("suffix", suffix), ("prefix", prefix), ("path2", path2)):
        if v is not None:
            r[k] = b2s(v) if isinstance(v, bytes) else v
    for k, v in (("ord", ord), ("mseq", mseq), ("seq", seq), ("proc", proc), ("count", count), ("id", id)):
        if v is not None:
            r[k] = v
    return r


def plan_text(rules):
    lines = []
    for i, r in enumerate(rules):
        parts = ["R", "id=%d" % r.get("id", i), "kind=" + r["kind"]]
        for k in ("path", "suffix", "prefix", "path2"):
            if k in r:
                parts.append("%s=%s" % (k, pct(r[k])))
        for k in ("ord", "mseq", "seq", "proc", "count"):
            if k in r:
                parts.append("%s=%s" % (k, r[k]))
        parts.append("act=" + r["act"])
        lines.append(" ".join(parts))
    return "\n".join(lines) + "\n"


# ----------------------------------------------------------------------------- trace

class Ev:
    __slots__ = ("seq", "mseq", "child", "tid", "kind", "ord", "ret", "errno", "act", "arg",
                 "rule", "path", "path2", "extra")

    def __repr__(self):
        return "Ev(%d %s ord=%d ret=%d errno=%d act=%s %r %r %s)" % (
            self.seq, self.kind, self.ord, self.ret, self.errno, self.act, self.path, self.path2, self.extra)

    def brief(self):
        return "%s %s%s -> %s%s" % (
            self.kind, b2s(self.path), (" " + b2s(self.path2)) if self.path2 else "",
            self.ret if self.ret >= 0 else "errno %d" % self.errno,
            (" [" + self.act + "]") if self.act != "-" else "")


class Trace:
    def __init__(self):
        self.events = []      # main-process events, ordered by seq
        self.child_events = []
        self.ro_violations = []  # (kind, is_child, path)
        self.maxfd = 0
        self.pauses = []
        self.procs = 0

    def main(self, *kinds):
        return [e for e in self.events if not kinds or e.kind in kinds]

    def mutating(self):
        return [e for e in self.events if e.mseq >= 0]

    def fired(self):
        return [e for e in self.events + self.child_events if e.act != "-"]


def parse_trace(path):
    t = Trace()
    try:
        data = open(path, "rb").read().decode("ascii", "replace")
    except FileNotFoundError:
        return t
    for line in data.split("\n"):
        if not line:
            continue
        f = line.split(" ")
        if f[0] == "E" and len(f) >= 13:
            e = Ev()
            e.seq = int(f[1]); e.mseq = int(f[2]); e.child = int(f[3]); e.tid = int(f[4])
            e.kind = f[5]; e.ord = int(f[6]); e.ret = int(f[7]); e.errno = int(f[8])
            a = f[9].split(":")
            e.act = a[0]; e.arg = int(a[1]); e.rule = int(a[2])
            e.path = unpct(f[10]); e.path2 = unpct(f[11]); e.extra = f[12]
            (t.child_events if e.child else t.events).append(e)
        elif f[0] == "V" and len(f) >= 5:
            t.ro_violations.append((f[2], int(f[3]), unpct(f[4])))
        elif f[0] == "M" and f[1] == "maxfd":
            t.maxfd = max(t.maxfd, int(f[2]))
        elif f[0] == "P":
            t.pauses.append((int(f[1]), int(f[2])))
        elif f[0] == "S":
            t.procs += 1
    t.events.sort(key=lambda e: e.seq)
    return t


# ----------------------------------------------------------------------------- run directory

_run_counter = [0]


class RunDir:
    """A private simulated host: world root, TMPDIR, HOME/cache, scratch; on tmpfs."""

    def __init__(self, tag="r"):
        _run_counter[0] += 1
        # fixed width: report sizes (and so the number of cut offsets in C10) must not depend on the pid
        self.base = os.path.join(SHM, "%s_%07d_%05d" % (tag, os.getpid(), _run_counter[0]))
        if os.path.exists(self.base):
            shutil.rmtree(self.base, ignore_errors=True)
        self.world = os.path.join(self.base, "w")
        self.tmp = os.path.join(self.base, "tmp")
        self.home = os.path.join(self.base, "home")
        self.cache = os.path.join(self.base, "cache")
        self.scratch = os.path.join(self.base, "s")
        for d in (self.world, self.tmp, self.home, self.cache, self.scratch):
            os.makedirs(d)
        self.n = 0

    def wb(self):
        return self.world.encode()

    def cleanup(self):
        # directories may have been made unreadable by a scenario
        for root, dirs, files in os.walk(self.base):
            for d in dirs:
                try:
                    os.chmod(os.path.join(root, d), 0o700)
                except OSError:
                    pass
        shutil.rmtree(self.base, ignore_errors=True)

    def __enter__(self):
        return self

    def __exit__(self, *a):
        self.cleanup()


class Result:
    def __init__(self):
        self.rc = None
        self.out = b""
        self.err = b""
        self.trace = None
        self.timed_out = False
        self.wall = 0.0
        self.hits = []

    def crashed(self):
        return self.rc == 137

    def warnings(self):
        # robust against cosmetic changes of the log format: any stderr line that says warn/error/fail
        out = []
        for l in self.err.decode("utf-8", "replace").split("\n"):
            low = l.lower()
            if "warn" in low or "error" in low or "failed" in low or "cannot" in low:
                out.append(l)
        return out

    def errors(self):
        return [l for l in self.err.decode("utf-8", "replace").split("\n") if "error:" in l]

    def panicked(self):
        return b"panicked at" in self.err


def run_fclones(rd, args, *, stdin=None, plan=None, now_ns=T0_NS, seed=1, cwd=None, env=None,
                ro=None, roots_extra=(), on_hit=None, timeout=60.0, ficlone=True, labels=None,
                threads_env=None, trace=True, nofile=None):
    """Run the real binary under the seam.  args: list of str/bytes after the program name.

    on_hit(id) -> new now_ns or None: called at each rendezvous while fclones is stopped.
    """
    rd.n += 1
    n = rd.n
    trace_path = os.path.join(rd.scratch, "trace.%d" % n)
    plan_path = os.path.join(rd.scratch, "plan.%d" % n)
    out_path = os.path.join(rd.scratch, "out.%d" % n)
    err_path = os.path.join(rd.scratch, "err.%d" % n)
    in_path = os.path.join(rd.scratch, "in.%d" % n)
    if stdin is None and seed % 2 and any(a in ("--transform", b"--transform") for a in args):
        # slow signal delivery: a child that fclones starts and kills right away (the transform probe) gets
        # 20 ms to run first - decided here, not left to the race between the two processes
        plan = list(plan or []) + [rule(kind="kill", act="delay:20000", count="inf")]
    with open(plan_path, "w") as f:
        f.write(plan_text(plan or []))
    # stdin=None models, depending on the parity of the seam seed, a terminal (a pipe that never delivers
    # data and never reaches EOF while fclones runs) or /dev/null. fclones used to probe the transform
    # program with inherited stdio; with an empty stdin that probe printed into the report stream before it
    # was killed - a race, repaired in /repo (see known_findings.json)
    hold_w = None
    if stdin is not None:
        with open(in_path, "wb") as f:
            f.write(stdin)
    e = {
        "PATH": "/usr/local/bin:/usr/bin:/bin",
        "HOME": rd.home,
        "XDG_CACHE_HOME": rd.cache,
        "TMPDIR": rd.tmp,
        "TZ": "UTC",
        "LANG": "C.UTF-8",
        "LD_PRELOAD": SEAM,
        "SIMFS_ROOTS": ":".join([rd.world, rd.tmp, rd.cache] + list(roots_extra)),
        "SIMFS_PLAN": plan_path,
        "SIMFS_NOW_NS": str(now_ns),
        "SIMFS_SEED": str(seed),
        "SIMFS_FICLONE": "1" if ficlone else "0",
        "RUST_BACKTRACE": "0",
    }
    if trace:
        e["SIMFS_TRACE"] = trace_path
    if ro:
        e["SIMFS_RO"] = ":".join(ro)
    if labels is not None:
        lp = os.path.join(rd.scratch, "labels.%d" % n)
        write_labels(lp, labels)
        e["SIMFS_LABELS"] = lp
    if threads_env is not None:
        e["RAYON_NUM_THREADS"] = str(threads_env)
    if env:
        e.update(env)
    argv = [FCLONES.encode()] + [a.encode() if isinstance(a, str) else a for a in args]
    res = Result()
    sock_parent = sock_child = None
    pass_fds = ()
    if on_hit is not None:
        sock_parent, sock_child = socket.socketpair()
        os.set_inheritable(sock_child.fileno(), True)
        e["SIMFS_CTL_FD"] = str(sock_child.fileno())
        pass_fds = (sock_child.fileno(),)
    t0 = time.time()
    if stdin is None and seed % 2:
        # started from cron / CI: standard input is /dev/null (immediate EOF) - a transform program probed
        # with inherited stdio would read EOF and print into the report stream
        fin_obj = open(os.devnull, "rb")
    elif stdin is None:
        pr, hold_w = os.pipe()
        fin_obj = os.fdopen(pr, "rb")
    else:
        fin_obj = open(in_path, "rb")
    with fin_obj as fin, open(out_path, "wb") as fout, open(err_path, "wb") as ferr:
        pre = None
        if nofile is not None:
            import resource

            def pre():
                resource.setrlimit(resource.RLIMIT_NOFILE, (nofile, nofile))
        p = subprocess.Popen(argv, stdin=fin, stdout=fout, stderr=ferr, env=e,
                             cwd=cwd or rd.base, pass_fds=pass_fds, close_fds=True, preexec_fn=pre)
        if sock_child is not None:
            sock_child.close()
        if sock_parent is not None:
            def serve():
                buf = b""
                try:
                    while True:
                        d = sock_parent.recv(256)
                        if not d:
                            return
                        buf += d
                        while b"\n" in buf:
                            line, buf = buf.split(b"\n", 1)
                            if line.startswith(b"HIT "):
                                hid = int(line[4:])
                                res.hits.append(hid)
                                new_now = None
                                try:
                                    new_now = on_hit(hid)
                                except Exception as ex:  # surfaced by caller
                                    res.hit_error = ex
                                msg = b"GO %d\n" % new_now if new_now is not None else b"GO\n"
                                sock_parent.sendall(msg)
                except OSError:
                    return
            th = threading.Thread(target=serve, daemon=True)
            th.start()
        try:
            p.wait(timeout=timeout)
        except subprocess.TimeoutExpired:
            res.timed_out = True
            p.kill()
            p.wait()
        if sock_parent is not None:
            try:
                sock_parent.shutdown(socket.SHUT_RDWR)
            except OSError:
                pass
            sock_parent.close()
    if hold_w is not None:
        os.close(hold_w)
    res.wall = time.time() - t0
    res.rc = p.returncode if p.returncode >= 0 else 128 - p.returncode
    res.out = open(out_path, "rb").read()
    res.err = open(err_path, "rb").read()
    res.trace = parse_trace(trace_path) if trace else Trace()
    if trace and res.trace.procs == 0 and not res.timed_out:
        raise HarnessError("seam not loaded (empty trace); stderr: %r" % res.err[:500])
    if res.rc == 2 and b"Usage:" in res.err:
        raise HarnessError("fclones rejected the command line %r: %s" % (argv[1:], res.err[:300]))
    if getattr(res, "hit_error", None):
        raise HarnessError("actor failed at rendezvous: %r" % (res.hit_error,))
    return res


def write_labels(path, labels):
    """labels: {real_ino: {ino,dev,btime,ctime,atime,mtime}}"""
    with open(path, "w") as f:
        for ino, d in labels.items():
            f.write(str(ino) + " " + " ".join("%s=%d" % (k, v) for k, v in d.items()) + "\n")


def fmt_ts(ns):
    """simulated ns -> the text fclones prints in a report header (UTC)"""
    s, rem = divmod(ns, 10**9)
    return time.strftime("%Y-%m-%d %H:%M:%S", time.gmtime(s)) + ".%03d +0000" % (rem // 10**6)
