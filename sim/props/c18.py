"""C18 - `move` maps sources injectively and never overwrites.

Worlds x target-directory variants (inside/outside the scanned tree, relative/absolute, same or
second simulated device, pre-populated with colliding files, directories and symlinks incl.
dangling ones) x injected rename/copy/unlink/mkdir failures."""
import os
import random

from .. import core, ops, gen, report
from ..core import T0_NS, b2s, s2b, rule, stable_hash
from ..world import World, inventory, contents_of, inv_brief

ID = "C18"
LEVEL = "exploration"
BUDGET = {"quick": {"n": 1500, "wall_s": 420}, "thorough": {"n": 20000, "wall_s": 3300}}
RULE = ("per case: world of 1..4 duplicate families; target DIR in {outside the scanned tree, inside it, relative to cwd, written through `<link to a directory>/..`, "
        "on a second simulated device (copy path)}; 0..3 pre-existing entries placed exactly at mapped locations (file, "
        "directory, symlink to a file, dangling symlink, parent path component being a file); fault plan drawn from {none, "
        "EXDEV/EIO on rename (every / n-th), ENOSPC/EIO at the n-th copy_file_range/sendfile/write, EIO on the final unlink, "
        "EIO/EACCES on mkdir}; oracle on inventories: mapping DIR/<abs source>, pre-existing entries under DIR bit-identical, "
        "a collided source stays (with a warning), a source that is gone has all its bytes at the target, new files only at "
        "mapped locations, content conservation. non-trivial = >= 1 file moved or >= 1 collision; distinct = trace signatures")
ASSUMPTIONS = ["the second device is simulated by the device-pin hook (mount map), renames across it are made to fail with EXDEV at the seam",
               "a symlink member (reports made with -S) is not generated here"]


def gen_case(seed, i):
    rng = random.Random(stable_hash(seed, ID, i))
    w = World()
    files = []
    # a third of the worlds: names with characters that are special somewhere (drive / path separators of other
    # systems, bytes that are not UTF-8, shell and glob characters) - the mapping below DIR is byte-exact
    hostile_names = rng.random() < 0.33
    dirs_ = ["a", "b", "a/c"] if not hostile_names else ["a", "a:", "a/c\\d", b2s(b"a/\xffc"), "b b", "b:b/c", "C:"]
    for f in range(rng.randint(1, 4)):
        n = rng.choice([1, 30, 700, 70000 if rng.random() < 0.2 else 300])
        # every sixth family is SPARSE: some data, then a hole up to the end (or nothing but a hole)
        sp = rng.random() < 0.17
        for k in range(rng.randint(2, 4)):
            p = "r/%s/f%dk%d" % (rng.choice(dirs_), f, k)
            if hostile_names:
                # the same name with and without a character that a "clean-up" of names would drop or replace
                p = "r/%s/f%s%dk%s%d" % (rng.choice(dirs_), rng.choice(["", ":", "\\", b2s(b"\xff"), b2s(b"\xfe"), b2s(b"\xef\xbf\xbd"), "?", "*"]), f,
                                        rng.choice(["", ":", "\\", " ", "'"]), k)
                if p in files:
                    continue
            w.add_file(p, {"fam": f + 1, "len": 4096 if sp and f % 2 else (0 if sp else n), "tailhole": 200000 + f, "flips": []} if sp
                       else {"fam": f + 1, "len": n, "flips": []})
            files.append(p)
    variant = rng.choice(["outside", "outside", "inside", "relative", "dev2", "linkdotdot"])
    # "linkdotdot": DIR is written `lk/../T2` where lk is a symbolic link to the directory store/deep - the
    # operating system resolves that to store/T2 (a lexical clean-up of the path would say ./T2)
    tdir = {"outside": "T", "inside": "r/a/T", "relative": "T", "dev2": "D2/T", "linkdotdot": "store/T2"}[variant]
    if variant == "linkdotdot":
        w.add_dir("store/deep")
        w.add_symlink("lk", "store/deep")
    pre = []
    for _ in range(rng.choice([0, 0, 1, 2, 3])):
        src = rng.choice(files)
        kind = rng.choice(["file", "dir", "symlink-file", "symlink-dangling", "parent-file"])
        pre.append({"kind": kind, "src": src})
    fault = rng.choice([None, None, None,
                        {"kind": "rename", "act": "errno:EXDEV", "count": "inf"},
                        {"kind": "rename", "act": "errno:EIO", "ord": rng.choice([0, 1])},
                        {"kind": "copyrange", "act": "errno:ENOSPC", "ord": rng.choice([0, 1])},
                        {"kind": "copyrange", "act": "errno:EIO", "count": "inf"},
                        {"kind": "sendfile", "act": "errno:ENOSPC", "ord": 0},
                        {"kind": "write", "act": "errno:ENOSPC", "ord": rng.choice([0, 1, 2])},
                        {"kind": "unlink", "act": "errno:EIO", "ord": rng.choice([0, 1])},
                        {"kind": "mkdir", "act": rng.choice(["errno:EIO", "errno:EACCES"]), "ord": rng.choice([0, 1, 3])},
                        {"kind": "copyrange", "act": "short:7", "count": "inf"}])
    if variant == "dev2" and rng.random() < 0.6:
        # the copy path is certain here: fail ONE step of it (create the target, set its mode, copy the data,
        # remove the source) with one of the errnos a real file system answers with
        fault = {"kind": rng.choice(["openw", "chmod", "chmod", "copyrange", "sendfile", "write", "unlink", "utimes", "mkdir"]),
                 "act": "errno:" + rng.choice(["EPERM", "EACCES", "EIO", "ENOSPC", "EROFS"]), "ord": rng.choice([0, 0, 1])}
    return {"i": i, "world": w.to_json(), "variant": variant, "tdir": tdir, "pre": pre, "fault": fault,
            # the report was made in another working directory than the one `move` runs in (half of the cases):
            # a relative DIR belongs to the `move` command line
            "gcwd": rng.choice(["", "r"]),
            "fmt": rng.choice(["default", "json"]), "dargs": rng.choice([[], [], ["-n", "1"], ["--priority", "top"], ["--no-lock"]])}


def gen_cases(tier, seed):
    for i in range(BUDGET[tier]["n"]):
        yield gen_case(seed, i)


def shrink(case):
    if case["fault"]:
        c = dict(case); c["fault"] = None; yield c
    for i in range(len(case["pre"])):
        c = dict(case); c["pre"] = case["pre"][:i] + case["pre"][i + 1:]; yield c
    ents = case["world"]["entries"]
    used = {p["src"] for p in case["pre"]}
    for i, e in enumerate(ents):
        if e["p"] in used:
            continue
        c = dict(case); c["world"] = {"entries": ents[:i] + ents[i + 1:]}; yield c
    if case["dargs"]:
        c = dict(case); c["dargs"] = []; yield c


def run_case(case):
    viol = []
    with core.RunDir("c18") as rd:
        World.from_json(case["world"]).materialise(rd.world)
        W = rd.wb()
        T = os.path.join(W, s2b(case["tdir"]))
        os.makedirs(T, exist_ok=True)

        def mapped(rel):
            return T + W + b"/" + rel           # DIR/<absolute source path without the root "/">

        # pre-existing entries exactly at mapped locations
        outside = os.path.join(W, b"elsewhere")
        os.makedirs(outside, exist_ok=True)
        open(os.path.join(outside, b"precious"), "wb").write(b"precious bytes that must survive\n")
        for k, pz in enumerate(case["pre"]):
            m = mapped(s2b(pz["src"]))
            try:
                if pz["kind"] == "parent-file":
                    par = os.path.dirname(m)
                    os.makedirs(os.path.dirname(par), exist_ok=True)
                    if not os.path.lexists(par):
                        open(par, "wb").write(b"i am a file where a directory is needed %d\n" % k)
                    continue
                os.makedirs(os.path.dirname(m), exist_ok=True)
                if os.path.lexists(m):
                    continue
                if pz["kind"] == "file":
                    # (every third one is EMPTY: an empty file is an existing entry like any other)
                    open(m, "wb").write(b"" if (case["i"] + k) % 3 == 0 else b"pre-existing file %d\n" % k)
                elif pz["kind"] == "dir":
                    os.makedirs(m)
                    if (case["i"] + k) % 2:          # ... and every other directory is empty
                        open(os.path.join(m, b"inner"), "wb").write(b"inner %d\n" % k)
                elif pz["kind"] == "symlink-file":
                    os.symlink(os.path.join(outside, b"precious"), m)
                elif pz["kind"] == "symlink-dangling":
                    os.symlink(os.path.join(outside, b"not-there-%d" % k), m)
            except (OSError, NotADirectoryError):
                pass
        env = {"FCLONES_VERIF_DEVICES": "/=ssd:simroot"}
        if case["variant"] == "dev2":
            env["FCLONES_VERIF_DEVICES"] += ";%s=ssd:simdisk2" % os.path.join(rd.world, "D2")
        g = ops.group(rd, [os.path.join(rd.world, "r")], ["--threads", "1"] + (["-f", "json"] if case["fmt"] == "json" else []),
                      env=env, seed=3, cwd=os.path.join(rd.world, case.get("gcwd", "")))   # `group` may have run elsewhere
        if g.rc != 0:
            return {"violations": [], "nontrivial": False, "sig": None, "probes": {"group_failed": 1}, "invocations": 1, "info": {}}
        rep = report.parse_any(g.out)
        listed = {ops.relw(rd, p) for grp in rep.groups for p in grp.paths}
        before = inventory(rd.world)
        Trel = ops.relw(rd, T)
        plan = []
        if case["fault"]:
            f = case["fault"]
            plan.append(rule(kind=f["kind"], act=f["act"], ord=f.get("ord"), count=f.get("count"), prefix=rd.world))
        if case["variant"] == "dev2":
            # a rename across the simulated device boundary fails like the real thing
            plan.append(rule(kind="rename", act="errno:EXDEV", count="inf", prefix=rd.world + "/r"))
        target_arg = {"relative": "T", "linkdotdot": "lk/../T2"}.get(case["variant"], T)
        res = ops.dedupe(rd, "move", g.out, extra=case["dargs"], target=target_arg, plan=plan, env=env,
                         now_ns=T0_NS + 3600 * 10**9, seed=5, threads_env=1, cwd=rd.world)
        after = inventory(rd.world)
        fired = res.trace.fired()

        def V(clause, detail):
            viol.append({"clause": clause, "detail": "%s | variant=%s pre=%s fault=%s dargs=%s | stderr=%s | before=%s | after=%s" % (
                detail, case["variant"], case["pre"], case["fault"], case["dargs"], res.err.decode("utf-8", "replace")[-500:],
                inv_brief(before), inv_brief(after))})

        if res.timed_out:
            V("terminates", "move hung")
        if res.panicked():
            V("no-panic", "move panicked")
        # 1. everything that existed under DIR (and elsewhere outside the report) is bit-identical
        for p, e in before.items():
            under_T = p == Trel or p.startswith(Trel + b"/")
            if p in listed and not under_T:
                continue
            if e.type == "d":
                if p not in after or after[p].type != "d":
                    V("existing-untouched", "directory %r vanished or changed type" % b2s(p))
                continue
            a = after.get(p)
            if a is None or not e.untouched(a) or a.nlink != e.nlink and under_T:
                V("existing-untouched", "%s %r was altered: %r -> %r" % ("pre-existing entry under DIR" if under_T else "unlisted path", b2s(p), e, a))
        # 2./3. sources
        moved = 0
        collisions = 0
        for p in sorted(listed):
            if p not in before or before[p].type != "f":
                continue
            if p == Trel or p.startswith(Trel + b"/"):
                continue
            m = ops.relw(rd, mapped(p))
            a = after.get(p)
            if a is None:
                t = after.get(m)
                if t is None or t.type != "f" or t.sha != before[p].sha:
                    V("moved-bytes-complete", "source %r is gone but its bytes are not (completely) at %r: %r" % (b2s(p), b2s(m), t))
                elif m in before:
                    V("never-overwrites", "source %r was moved over the pre-existing %r" % (b2s(p), b2s(m)))
                else:
                    moved += 1
            else:
                if not before[p].untouched(a):
                    V("source-kept-intact", "source %r stayed but was modified: %r -> %r" % (b2s(p), before[p], a))
                if m in before or os.path.lexists(mapped(p)) and m not in after:
                    collisions += 1
        # 4. new files only at mapped locations, holding complete source bytes (unless a fault fired)
        maps = {ops.relw(rd, mapped(p)): p for p in listed if p in before}
        for p, a in after.items():
            if p in before or a.type != "f":
                continue
            if not (p == Trel or p.startswith(Trel + b"/")):
                V("no-stray-files", "new file %r outside DIR" % b2s(p))
                continue
            src = maps.get(p)
            if src is None:
                V("mapping", "new file %r under DIR is not the mapped location of any source" % b2s(p))
            elif a.sha != before[src].sha and not fired:
                V("moved-bytes-complete", "target %r differs from its source %r" % (b2s(p), b2s(src)))
        # 5. conservation
        lost = contents_of(before) - contents_of(after)
        if lost:
            V("content-conserved", "contents lost: %s" % sorted(x[:8] for x in lost))
        verdict = ",".join(sorted({v["clause"] for v in viol}))
        return {
            "violations": viol,
            "nontrivial": moved > 0 or collisions > 0,
            "sig": ops.trace_sig(rd, [res.trace], verdict + case["variant"]),
            "faults": ops.fault_counts([res.trace]),
            "probes": {"moved": moved, "collisions": collisions, "variant_" + case["variant"]: 1,
                       "copy_fallback_taken": int(any(e.kind in ("copyrange", "sendfile") for e in res.trace.mutating())),
                       "pre_existing_entries": len(case["pre"])},
            "sim_ns": 3600 * 10**9,
            "invocations": 2,
            "info": {"variant": case["variant"], "pre": [p["kind"] for p in case["pre"]], "fault": case["fault"], "moved": moved, "rc": res.rc},
        }
