"""C08 - dedupe obeys keep/drop patterns, priorities, link sets and -n.

The documented selection rule as a small reference model; timestamps (btime/ctime/mtime/atime,
incl. ties) are presented through seam relabelling; options come from the real command line or are
inherited from the `group` command recorded in the report header."""
import os
import random
import re
import shlex

from .. import core, ops, report, gen
from ..core import T0_NS, b2s, s2b, stable_hash
from ..world import World, inventory

ID = "C08"
LEVEL = "exploration"
BUDGET = {"quick": {"n": 1500, "wall_s": 400}, "thorough": {"n": 30000, "wall_s": 3300}}
RULE = ("per case: 1..3 groups of 2..7 paths with hard-link subsets over 1..3 roots and nesting 1..4; simulated "
        "btime/ctime/mtime/atime per inode with deliberate ties (seam relabelling); options: -n N on the command line or "
        "--rf-over inherited from group, --isolate on either side, -H on either side, chained --priority (12 kinds), "
        "--name/--path/--keep-name/--keep-path with literal/*/** globs; operation remove|link|link --soft|move|dedupe; "
        "oracle: set of paths changed by the real run == set named by --dry-run == drop set of the reference rule. "
        "non-trivial = the model drops >= 1 path; distinct = distinct (trace signature, option set)")
ASSUMPTIONS = ["globs restricted to literal/*/**/? forms (C16 is not decided here)", "plain file names",
               "reference rule written from the documentation of --priority, -n, --isolate, --keep-*/--name/--path"]
PRIOS = ["top", "bottom", "newest", "oldest", "most-recently-modified", "least-recently-modified",
         "most-recently-accessed", "least-recently-accessed", "most-recent-status-change",
         "least-recent-status-change", "most-nested", "least-nested"]


def gen_case(seed, i):
    rng = random.Random(stable_hash(seed, ID, i))
    nroots = rng.randint(1, 3)
    roots = gen.root_names(rng, nroots)
    w = World()
    times = {}
    tvals = [T0_NS - k * 3600 * 10**9 - 500 * 10**6 for k in range(1, 5)]   # few values -> ties
    # ... and values that differ by less than a millisecond (times have nanosecond precision; they are NOT ties)
    tvals += [T0_NS - 3600 * 10**9 - 500 * 10**6 + d for d in (100, 300_100, 600_100)]
    # one case in twelve has a WIDE group (40..56 replicas, heavily tied timestamps and nesting levels): the
    # quantifier says "sizes 2..N", and sorting / batching code behaves differently above a few dozen elements
    wide = rng.random() < 0.085
    for g in range(rng.randint(1, 3)):
        n = rng.choice([5, 64, 700])
        for k in range(rng.randint(40, 56) if (wide and g == 0) else rng.randint(2, 5)):
            d = rng.choice(roots) + rng.choice(["", "/a", "/a/b", "/a/b/c", "/x"])
            p = "%s/g%df%d" % (d, g, k)
            if rng.random() < 0.15:
                # names that are not plain ASCII (invalid UTF-8, multi-byte, trailing blank): the name patterns are
                # matched against a lossy text form of the name and must still apply
                p += rng.choice(["\xff.bak", "\xc3\xa9.bak", " .bak", ".bak", "\xe2\x82"])
            mt = rng.choice(tvals)
            w.add_file(p, {"fam": g + 1, "len": n, "flips": []}, mt=mt)
            times[p] = {"btime": rng.choice(tvals), "ctime": rng.choice(tvals), "atime": rng.choice(tvals), "mtime": mt}
            for h in range(rng.choice([0, 0, 0, 1, 2])):
                d2 = rng.choice(roots) + rng.choice(["", "/a", "/x", "/a/b"])
                w.add_hardlink("%s/g%df%dh%d" % (d2, g, k, h), p)
    gflags, dflags = [], []
    isolate_g = nroots >= 2 and rng.random() < 0.3
    if isolate_g:
        gflags.append("--isolate")
    isolate_d = (not isolate_g) and rng.random() < 0.25
    if isolate_d:
        for r in rng.sample(roots, rng.randint(1, nroots)):
            # spelled absolute, relative to the working directory of the dedupe command (= the world), ./x or x/../x
            dflags += ["--isolate", rng.choice(["@W@/" + r, "@W@/" + r, "./" + r, "./" + r + "/", "./%s/../%s" % (r, r)])]
    if rng.random() < 0.2:
        (gflags if rng.random() < 0.5 else dflags).append("-H")
    rf = None
    if rng.random() < 0.3 and not isolate_g:
        rf = rng.choice([1, 2, 3])
        gflags += ["--rf-over", str(rf)]
    n = None
    if rng.random() < 0.4 or wide:
        n = rng.choice([1, 1, 2, 3]) if not wide else rng.choice([5, 17, 25, 33])
        dflags += ["-n", str(n)]
    prios = [rng.choice(PRIOS) for _ in range(rng.choice([0, 1, 1, 2, 3]) if not wide else rng.choice([1, 2]))]
    for p in prios:
        dflags += ["--priority", p]
    pats = {}
    r = rng.random()
    names = ["g0*", "*f1*", "g?f0", "*h0", "g1f2", "*", "*.bak", "*?.bak", "g*f?"]
    paths = ["@W@/r1/**", "@W@/**/a/**", "**/x/*", "@W@/r2/*", "**/b/**", "@W@/**"]
    if r < 0.2:
        pats["name"] = [rng.choice(names)]
    elif r < 0.4:
        pats["keep-name"] = [rng.choice(names)]
    elif r < 0.55:
        pats["path"] = [rng.choice(paths)]
    elif r < 0.7:
        pats["keep-path"] = [rng.choice(paths)]
    elif r < 0.8:
        pats["name"] = [rng.choice(names)]
        pats["keep-path"] = [rng.choice(paths)]
    elif r < 0.9:
        # a keep pattern AND a drop pattern on one command line (a file may match both, neither, or one)
        pats[rng.choice(["name", "path"])] = [rng.choice(names)] if rng.random() < 0.5 else [rng.choice(paths)]
        pats[rng.choice(["keep-name", "keep-path"])] = [rng.choice(names)] if rng.random() < 0.5 else [rng.choice(paths)]
        for k_ in list(pats):
            if k_.endswith("name") and pats[k_][0].startswith(("@W@", "**")):
                pats[k_] = [rng.choice(names)]
            if k_.endswith("path") and not pats[k_][0].startswith(("@W@", "**")):
                pats[k_] = [rng.choice(paths)]
        if n is None or n < 2:
            n = rng.choice([2, 2, 3])
            dflags = [x for k2, x in enumerate(dflags) if not (x == "-n" or (k2 > 0 and dflags[k2 - 1] == "-n"))] + ["-n", str(n)]
    for k, vs in pats.items():
        for v in vs:
            dflags += ["--" + k, v]
    return {"i": i, "world": w.to_json(), "roots": roots, "times": times, "gflags": gflags, "dflags": dflags,
            "prios": prios, "pats": pats, "n": n, "rf": rf, "isolate_g": isolate_g, "op": rng.choice(["remove", "remove", "link", "softlink", "move", "dedupe"]),
            "fmt": rng.choice(["default", "json"]),
            # how `group` names its input paths (absolute; relative to its working directory; relative to --base-dir,
            # the command started elsewhere) and where the dedupe command is started: options inherited from the
            # report header belong to the report's base directory, not to the later working directory
            "gspell": rng.choice(["abs", "abs", "abs", "rel", "basedir"]),
            "dcwd": "base" if (rng.random() < 0.5 and not any(x.startswith("./") for x in dflags)) else "world"}


def gen_cases(tier, seed):
    for i in range(BUDGET[tier]["n"]):
        yield gen_case(seed, i)


def shrink(case):
    ents = case["world"]["entries"]
    for i, e in enumerate(ents):
        if any(o.get("to") == e["p"] and o["t"] == "h" for o in ents):
            continue
        c = dict(case); c["world"] = {"entries": ents[:i] + ents[i + 1:]}; yield c
    # drop one option pair
    df = case["dflags"]
    i = 0
    while i < len(df):
        w_ = 1 if df[i] == "-H" else 2
        c = dict(case); c["dflags"] = df[:i] + df[i + w_:]
        c["prios"] = [c["dflags"][k + 1] for k in range(len(c["dflags"]) - 1) if c["dflags"][k] == "--priority"]
        c["pats"] = {}
        for k in range(len(c["dflags"]) - 1):
            if c["dflags"][k] in ("--name", "--path", "--keep-name", "--keep-path"):
                c["pats"].setdefault(c["dflags"][k][2:], []).append(c["dflags"][k + 1])
        c["n"] = None
        for k in range(len(c["dflags"]) - 1):
            if c["dflags"][k] == "-n":
                c["n"] = int(c["dflags"][k + 1])
        yield c
        i += w_


def glob_match(pat, s):
    rx = ""
    i = 0
    while i < len(pat):
        if pat.startswith("**", i):
            rx += ".*"
            i += 2
        elif pat[i] == "*":
            rx += "[^/]*"
            i += 1
        elif pat[i] == "?":
            rx += "[^/]"
            i += 1
        elif pat[i] == "\\" and i + 1 < len(pat):
            rx += re.escape(pat[i + 1])
            i += 2
        else:
            rx += re.escape(pat[i])
            i += 1
    return re.fullmatch(rx, s, re.S) is not None


def model_drop(case, rd, rep, labels_by_path):
    """documented rule -> set of absolute paths (bytes) to drop"""
    W = rd.world
    isolate_roots = []
    if case["isolate_g"]:
        isolate_roots = [os.path.join(W, r) for r in case["roots"]]
    df = case["dflags"]
    d_iso = [os.path.normpath(os.path.join(W, df[k + 1].replace("@W@", W))) for k in range(len(df) - 1) if df[k] == "--isolate"]
    if d_iso:
        isolate_roots = d_iso
    match_links = "-H" in case["gflags"] or "-H" in df
    n = case["n"] if case["n"] is not None else (case["rf"] if case["rf"] is not None else 1)
    n = max(1, n)
    pats = {k: [v.replace("@W@", W) for v in vs] for k, vs in case["pats"].items()}

    def lossy(p):
        # patterns see the text form of a path: bytes that are not valid UTF-8 become U+FFFD
        return p.encode("utf-8", "surrogateescape").decode("utf-8", "replace")

    def keep(p):
        p = lossy(p)
        nm = os.path.basename(p)
        return any(glob_match(x, nm) for x in pats.get("keep-name", [])) or any(glob_match(x, p) for x in pats.get("keep-path", []))

    def droppable(p):
        if not pats.get("name") and not pats.get("path"):
            return True
        p = lossy(p)
        nm = os.path.basename(p)
        return any(glob_match(x, nm) for x in pats.get("name", [])) or any(glob_match(x, p) for x in pats.get("path", []))

    drop = set()
    for g in rep.groups:
        paths = [p.decode("utf-8", "surrogateescape") for p in g.paths]
        parts = [paths]
        if case["op"] in ("link", "dedupe"):
            bydev = {}
            for p in paths:
                bydev.setdefault(os.stat(p).st_dev, []).append(p)
            parts = list(bydev.values())
        for paths in parts:
            # sub-groups: by isolate root first, then by identity
            subs = [[] for _ in isolate_roots]
            ids = {}
            order = []
            for p in paths:
                idx = None
                for k, r in enumerate(isolate_roots):
                    if p == r or p.startswith(r.rstrip("/") + "/"):
                        idx = k
                        break
                if idx is not None:
                    subs[idx].append(p)
                elif not match_links:
                    key = os.stat(p).st_ino
                    if key not in ids:
                        ids[key] = []
                        order.append(key)
                    ids[key].append(p)
                else:
                    subs.append([p])
            subs = [s for s in subs if s] if match_links else [s for s in subs if s] + [ids[k] for k in order]
            if match_links:
                pass

            def T(p, fld):
                return labels_by_path[p][fld]

            def key_for(prio, sg):
                if prio in ("newest", "oldest"):
                    v = min(T(p, "btime") for p in sg)
                elif prio in ("most-recently-modified", "least-recently-modified"):
                    v = max(T(p, "mtime") for p in sg)
                elif prio in ("most-recently-accessed", "least-recently-accessed"):
                    v = max(T(p, "atime") for p in sg)
                elif prio in ("most-recent-status-change", "least-recent-status-change"):
                    v = max(T(p, "ctime") for p in sg)
                elif prio == "most-nested":
                    v = max(p.count("/") for p in sg)
                elif prio == "least-nested":
                    v = -min(p.count("/") for p in sg)
                else:
                    return None
                if prio in ("oldest", "least-recently-modified", "least-recently-accessed", "least-recent-status-change"):
                    v = -v
                return v

            # the priorities rank lexicographically, the first one given being the most significant; what is left
            # undecided stays in report order (= bottom).  Ascending order, highest priority (dropped first) last.
            # `top` and `bottom` are keys like the others: the position in the report, descending or ascending
            pos = {id(sg): k_ for k_, sg in enumerate(subs)}

            def rank(sg):
                ks = []
                for prio in case["prios"]:
                    ks.append(-pos[id(sg)] if prio == "top" else pos[id(sg)] if prio == "bottom" else key_for(prio, sg))
                return tuple(ks) + (pos[id(sg)],)
            subs.sort(key=rank)
            retain = [sg for sg in subs if any(keep(p) for p in sg) or not all(droppable(p) for p in sg)]
            todrop = [sg for sg in subs if sg not in retain]
            missing = min(len(todrop), max(0, n - len(retain)))
            todrop = todrop[missing:]
            for sg in todrop:
                drop.update(sg)
    return {p.encode("utf-8", "surrogateescape") for p in drop}


def parse_script(out, op):
    """paths the dry-run script names as to be removed/replaced/moved (plain names only)"""
    from . import c11
    named = set()
    cmds, _ = c11.tokenise(out)          # tokenised by bash itself: names may need $'..' quoting
    for toks in cmds:
        if len(toks) < 2:
            continue
        if toks[0] == b"rm" and op == "remove":
            named.add(toks[1])
        elif toks[0] == b"mv" and op in ("link", "softlink", "dedupe"):
            named.add(toks[1])
        elif toks[0] == b"mv" and op == "move":
            named.add(toks[1])
        elif toks[0] == b"cp" and op == "move":
            named.add(toks[1])
    return named


def run_case(case):
    viol = []
    with core.RunDir("c08") as rd:
        World.from_json(case["world"]).materialise(rd.world)
        os.makedirs(os.path.join(rd.world, "T"))
        roots = [os.path.join(rd.world, r) for r in case["roots"]]
        env = {"FCLONES_VERIF_DEVICES": "/=ssd:simroot"}
        # labels: real inode -> simulated times; hard links share the inode's times
        labels = {}
        labels_by_path = {}
        ents = case["world"]["entries"]
        for e in ents:
            src = e["p"] if e["t"] == "f" else e.get("to")
            if e["t"] in ("f", "h") and src in case["times"]:
                apb = os.path.join(rd.wb(), s2b(e["p"]))
                st = os.lstat(apb)
                labels[st.st_ino] = dict(case["times"][src])
                labels_by_path[apb.decode("utf-8", "surrogateescape")] = case["times"][src]
        gsp = case.get("gspell", "abs")
        groots = roots if gsp == "abs" else [(b"./" if s2b(r).startswith(b"-") else b"") + s2b(r) for r in case["roots"]]
        g = ops.group(rd, groots, (["--base-dir", rd.world] if gsp == "basedir" else []) + case["gflags"] + ["--threads", "1"] + (["-f", "json"] if case["fmt"] == "json" else []),
                      env=env, labels=labels, seed=3, cwd=rd.base if gsp == "basedir" else rd.world)
        dcwd = rd.base if case.get("dcwd") == "base" else rd.world
        if g.rc != 0:
            return {"violations": [], "nontrivial": False, "sig": None, "probes": {"group_failed": 1}, "invocations": 1,
                    "info": {"err": g.err.decode("utf-8", "replace")[-200:]}}
        rep = report.parse_any(g.out)
        exp = model_drop(case, rd, rep, labels_by_path)
        dflags = [x.replace("@W@", rd.world) for x in case["dflags"]]
        op = case["op"]
        target = os.path.join(rd.world, "T")
        dry = ops.dedupe(rd, op, g.out, extra=dflags + ["--dry-run"], target=target, env=env, labels=labels,
                         now_ns=T0_NS + 3600 * 10**9, seed=4, cwd=dcwd)
        before = inventory(rd.world)
        real = ops.dedupe(rd, op, g.out, extra=dflags, target=target, env=env, labels=labels,
                          now_ns=T0_NS + 3600 * 10**9, seed=4, threads_env=1, cwd=dcwd)
        after = inventory(rd.world)

        def V(clause, detail):
            viol.append({"clause": clause, "detail": "%s | op=%s gflags=%s dflags=%s | real stderr=%s | dry stderr=%s" % (
                detail, op, case["gflags"], case["dflags"], real.err.decode("utf-8", "replace")[-400:],
                dry.err.decode("utf-8", "replace")[-300:])})

        rel = lambda s_: sorted(b2s(ops.relw(rd, p) or p) for p in s_)
        if dry.rc != 0 or dry.panicked():
            V("options-accepted", "dry run failed: rc=%s" % dry.rc)
        if real.rc != 0 or real.panicked():
            V("options-accepted", "real run failed: rc=%s" % real.rc)
        if dry.rc == 0:
            named = parse_script(dry.out, op)
            if named != exp:
                V("dry-run-equals-rule", "dry run names %s, documented rule drops %s" % (rel(named), rel(exp)))
        if real.rc == 0:
            # observed through the seam (a hard link replaced by a link to the same inode is invisible
            # to an inventory)
            changed = set()
            origs = {os.path.join(rd.wb(), p_) for p_ in before}
            for ev in real.trace.mutating():
                if ev.ret < 0:
                    continue
                if op == "remove" and ev.kind == "unlink" and ev.path in origs:
                    changed.add(ev.path)
                elif op in ("link", "softlink") and ev.kind == "rename" and ev.path in origs and ops.temp_owner(ev.path2, origs) == ev.path:
                    changed.add(ev.path)
                elif op == "move" and ev.kind == "rename" and ev.path2.startswith(os.path.join(rd.wb(), b"T")):
                    changed.add(ev.path)
                elif op == "move" and ev.kind == "unlink":
                    changed.add(ev.path)
                elif op == "dedupe" and ev.kind == "ficlone" and ev.path in origs:
                    changed.add(ev.path)
            if changed != exp:
                V("real-run-equals-rule", "real run changed %s, documented rule drops %s" % (rel(changed), rel(exp)))
        verdict = ",".join(sorted({v["clause"] for v in viol}))
        return {
            "violations": viol,
            "nontrivial": len(exp) > 0,
            "sig": ops.trace_sig(rd, [real.trace], verdict + repr((case["gflags"], case["dflags"]))),
            "probes": {"model_drops": len(exp), "groups": len(rep.groups), "with_priority": int(bool(case["prios"])),
                       "with_patterns": int(bool(case["pats"])), "with_n": int(case["n"] is not None),
                       "inherited_rf": int(case["rf"] is not None and case["n"] is None),
                       "isolate": int(case["isolate_g"] or "--isolate" in case["dflags"]), "op_" + op: 1},
            "sim_ns": 3600 * 10**9,
            "invocations": 3,
            "info": {"op": op, "gflags": case["gflags"], "dflags": case["dflags"], "drops": len(exp)},
        }
