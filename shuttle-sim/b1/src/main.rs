//! Engine B1: the REAL `/repo/fclones/src/semaphore.rs` under shuttle's scheduler.
//!
//! Every lock / wait / notify of the semaphore is a scheduling point; the woken waiter is chosen
//! by the scheduler; spurious wake-ups are injected by the shim (shuttle itself does not model
//! them).  The scenario (threads, pairs, permits, guard style) is drawn from `shuttle::rand`, so it
//! is part of the replayable schedule.
//!
//! usage: b1 unwind        (std primitives: a holder fails while holding guards; see `unwind_mode`)
//!        b1 run   --sched random|pct|dfs --seed S --iters N --out DIR [bounds...]
//!        b1 replay --file SCHEDULE [bounds...]
//! Prints one JSON line with the outcome.  Exit 0 = no failure, 1 = failure found, 2 = usage.

#![allow(clippy::mutex_atomic)]

use std::panic;
use std::sync::atomic::{AtomicIsize, AtomicUsize, Ordering};

pub mod verif_shim {
    //! What `semaphore.rs` imports under `--cfg fclones_verif_shuttle`.
    pub mod sync {
        use std::ops::{Deref, DerefMut};
        use std::sync::atomic::{AtomicUsize, Ordering};

        pub use std::sync::Arc; // shuttle's Arc is std's Arc (no scheduling points)

        /// spurious wake-ups still allowed in the current execution
        pub static SPURIOUS_BUDGET: AtomicUsize = AtomicUsize::new(0);
        pub static SPURIOUS_FIRED: AtomicUsize = AtomicUsize::new(0);
        pub static WAITS: AtomicUsize = AtomicUsize::new(0);

        /// `true`: the primitives are std's (mode `unwind`, outside any shuttle execution); `false`: shuttle's
        pub static STD_BACKEND: std::sync::atomic::AtomicBool = std::sync::atomic::AtomicBool::new(false);

        pub enum Mutex<T> {
            Sh(shuttle::sync::Mutex<T>),
            Std(std::sync::Mutex<T>),
        }

        pub enum Inner<'a, T> {
            Sh(shuttle::sync::MutexGuard<'a, T>),
            Std(std::sync::MutexGuard<'a, T>),
        }

        pub struct MutexGuard<'a, T> {
            guard: Option<Inner<'a, T>>,
            mutex: &'a Mutex<T>,
        }

        impl<T> Mutex<T> {
            pub fn new(v: T) -> Self {
                if STD_BACKEND.load(Ordering::Relaxed) {
                    Mutex::Std(std::sync::Mutex::new(v))
                } else {
                    Mutex::Sh(shuttle::sync::Mutex::new(v))
                }
            }
            pub fn lock(&self) -> Result<MutexGuard<'_, T>, ()> {
                let g = match self {
                    Mutex::Sh(m) => Inner::Sh(m.lock().map_err(|_| ())?),
                    Mutex::Std(m) => Inner::Std(m.lock().map_err(|_| ())?),
                };
                Ok(MutexGuard {
                    guard: Some(g),
                    mutex: self,
                })
            }
        }

        impl<T> Deref for MutexGuard<'_, T> {
            type Target = T;
            fn deref(&self) -> &T {
                match self.guard.as_ref().unwrap() {
                    Inner::Sh(g) => g,
                    Inner::Std(g) => g,
                }
            }
        }
        impl<T> DerefMut for MutexGuard<'_, T> {
            fn deref_mut(&mut self) -> &mut T {
                match self.guard.as_mut().unwrap() {
                    Inner::Sh(g) => &mut *g,
                    Inner::Std(g) => &mut *g,
                }
            }
        }

        pub enum Condvar {
            Sh(shuttle::sync::Condvar),
            Std(std::sync::Condvar),
        }

        impl Condvar {
            pub fn new() -> Self {
                if STD_BACKEND.load(Ordering::Relaxed) {
                    Condvar::Std(std::sync::Condvar::new())
                } else {
                    Condvar::Sh(shuttle::sync::Condvar::new())
                }
            }

            pub fn wait<'a, T>(&self, mut guard: MutexGuard<'a, T>) -> Result<MutexGuard<'a, T>, ()> {
                use shuttle::rand::Rng;
                let mutex = guard.mutex;
                let inner = match guard.guard.take().unwrap() {
                    Inner::Sh(g) => g,
                    Inner::Std(g) => {
                        let c = match self {
                            Condvar::Std(c) => c,
                            _ => unreachable!(),
                        };
                        let g = c.wait(g).map_err(|_| ())?;
                        return Ok(MutexGuard {
                            guard: Some(Inner::Std(g)),
                            mutex,
                        });
                    }
                };
                let (cv, shm) = match (self, mutex) {
                    (Condvar::Sh(c), Mutex::Sh(m)) => (c, m),
                    _ => unreachable!(),
                };
                WAITS.fetch_add(1, Ordering::Relaxed);
                let spurious = SPURIOUS_BUDGET.load(Ordering::Relaxed) > 0
                    && shuttle::rand::thread_rng().gen_bool(0.25);
                if spurious {
                    // a spurious wake-up: the mutex is released and re-taken without any notify
                    SPURIOUS_BUDGET.fetch_sub(1, Ordering::Relaxed);
                    SPURIOUS_FIRED.fetch_add(1, Ordering::Relaxed);
                    drop(inner);
                    shuttle::thread::sleep(std::time::Duration::from_millis(0));
                    let g = shm.lock().map_err(|_| ())?;
                    return Ok(MutexGuard {
                        guard: Some(Inner::Sh(g)),
                        mutex,
                    });
                }
                let g = cv.wait(inner).map_err(|_| ())?;
                Ok(MutexGuard {
                    guard: Some(Inner::Sh(g)),
                    mutex,
                })
            }

            pub fn notify_one(&self) {
                match self {
                    Condvar::Sh(c) => c.notify_one(),
                    Condvar::Std(c) => c.notify_one(),
                }
            }
            pub fn notify_all(&self) {
                match self {
                    Condvar::Sh(c) => c.notify_all(),
                    Condvar::Std(c) => c.notify_all(),
                }
            }
        }

        impl Default for Condvar {
            fn default() -> Self {
                Self::new()
            }
        }
    }
}

// the real file from the repository under test (VERIF_REPO, normally /repo), not a copy
#[allow(dead_code)]
mod semaphore {
    include!(concat!(env!("VERIF_REPO"), "/fclones/src/semaphore.rs"));
}

use semaphore::Semaphore;
use verif_shim::sync::{SPURIOUS_BUDGET, SPURIOUS_FIRED, WAITS};

#[derive(Clone, Copy, Debug)]
struct Bounds {
    max_threads: usize,
    max_pairs: usize,
    max_permits: usize,
    spurious: usize,
}

static EXECUTIONS: AtomicUsize = AtomicUsize::new(0);
static ACQUISITIONS: AtomicUsize = AtomicUsize::new(0);
static MOVED_GUARDS: AtomicUsize = AtomicUsize::new(0);
static SCEN_HASH: AtomicUsize = AtomicUsize::new(0);

fn scenario(b: Bounds) {
    use shuttle::rand::Rng;
    use shuttle::sync::mpsc;
    use shuttle::thread;
    use std::sync::Arc;

    EXECUTIONS.fetch_add(1, Ordering::Relaxed);
    SPURIOUS_BUDGET.store(b.spurious, Ordering::Relaxed);
    let mut rng = shuttle::rand::thread_rng();
    let nthreads = rng.gen_range(2..=b.max_threads.max(2));
    let permits = rng.gen_range(0..=b.max_permits);
    let pairs: Vec<usize> = (0..nthreads).map(|_| rng.gen_range(1..=b.max_pairs.max(1))).collect();
    let styles: Vec<u8> = (0..nthreads).map(|_| rng.gen_range(0..4u8)).collect();
    // with no initial permits a producer releases as many as are needed for everybody to finish
    let produced = if permits == 0 { 1 + rng.gen_range(0..2usize) } else { 0 };
    SCEN_HASH.fetch_xor(
        nthreads * 1_000_003 + permits * 10_007 + pairs.iter().sum::<usize>() * 101 + styles.iter().map(|&s| s as usize).sum::<usize>() * 7 + produced,
        Ordering::Relaxed,
    );

    let sem = Arc::new(Semaphore::new(permits as isize));
    let holders = Arc::new(AtomicIsize::new(0));
    let capacity = Arc::new(AtomicIsize::new(permits as isize));
    let (tx, rx) = mpsc::channel::<semaphore::OwnedSemaphoreGuard>();

    let check_in = |holders: &AtomicIsize, capacity: &AtomicIsize| {
        let h = holders.fetch_add(1, Ordering::SeqCst) + 1;
        let cap = capacity.load(Ordering::SeqCst);
        assert!(h <= cap, "semaphore admitted {h} holders with only {cap} permits");
        ACQUISITIONS.fetch_add(1, Ordering::Relaxed);
    };

    let mut handles = Vec::new();
    // a thread that drops guards acquired elsewhere (guards released on another thread)
    let holders_d = holders.clone();
    let dropper = thread::spawn(move || {
        while let Ok(g) = rx.recv() {
            thread::sleep(std::time::Duration::from_millis(0));
            holders_d.fetch_sub(1, Ordering::SeqCst);
            drop(g);
        }
    });
    for t in 0..nthreads {
        let sem = sem.clone();
        let holders = holders.clone();
        let capacity = capacity.clone();
        let tx = tx.clone();
        let n = pairs[t];
        let style = styles[t];
        handles.push(thread::spawn(move || {
            for _ in 0..n {
                match style {
                    0 => {
                        sem.acquire();
                        check_in(&holders, &capacity);
                        thread::sleep(std::time::Duration::from_millis(0));
                        holders.fetch_sub(1, Ordering::SeqCst);
                        sem.release();
                    }
                    1 => {
                        let g = sem.access();
                        check_in(&holders, &capacity);
                        thread::sleep(std::time::Duration::from_millis(0));
                        holders.fetch_sub(1, Ordering::SeqCst);
                        drop(g);
                    }
                    2 => {
                        let g = sem.clone().access_owned();
                        check_in(&holders, &capacity);
                        thread::sleep(std::time::Duration::from_millis(0));
                        holders.fetch_sub(1, Ordering::SeqCst);
                        drop(g);
                    }
                    _ => {
                        let g = sem.clone().access_owned();
                        check_in(&holders, &capacity);
                        MOVED_GUARDS.fetch_add(1, Ordering::Relaxed);
                        tx.send(g).unwrap(); // released by the dropper thread
                    }
                }
            }
        }));
    }
    drop(tx);
    if produced > 0 {
        let sem = sem.clone();
        let capacity = capacity.clone();
        handles.push(thread::spawn(move || {
            for _ in 0..produced {
                thread::sleep(std::time::Duration::from_millis(0));
                capacity.fetch_add(1, Ordering::SeqCst);
                sem.release();
            }
        }));
    }
    for h in handles {
        h.join().unwrap();
    }
    dropper.join().unwrap();
    // after all guards are dropped the full permit count is available again: acquiring all of it
    // must not block (a block here is reported by shuttle as a deadlock)
    let total = capacity.load(Ordering::SeqCst);
    assert_eq!(holders.load(Ordering::SeqCst), 0, "holders counter not back to zero");
    SPURIOUS_BUDGET.store(0, Ordering::Relaxed);
    for _ in 0..total {
        sem.acquire();
    }
}

/// Mode `unwind` (std primitives, real threads, no schedule involved): a holder FAILS while it holds guards -
/// the guards are dropped by the unwinding.  shuttle cannot run this: it treats every mutex release during
/// `std::thread::panicking()` as the end of the execution and closes the mutex.  The outcome does not depend on
/// the interleaving: once the failed holder is joined, every permit must be available again and a thread that was
/// already waiting must proceed.  A hang is detected by a generous real-time limit that only a violation reaches.
fn unwind_mode() -> Result<usize, String> {
    use std::sync::mpsc;
    use std::sync::Arc;
    use std::time::Duration;
    verif_shim::sync::STD_BACKEND.store(true, Ordering::SeqCst);
    let mut cases = 0;
    for permits in 1..=3usize {
        for held in 1..=permits {
            for style in 0..3u8 {
                for waiter_first in [false, true] {
                    cases += 1;
                    let sem = Arc::new(Semaphore::new(permits as isize));
                    let (tx, rx) = mpsc::channel::<()>();
                    let (htx, hrx) = mpsc::channel::<()>();
                    let (gtx, grx) = mpsc::channel::<()>();
                    let s2 = sem.clone();
                    let holder = std::thread::spawn(move || {
                        let r = panic::catch_unwind(panic::AssertUnwindSafe(|| {
                            let mut borrowed = Vec::new();
                            let mut owned = Vec::new();
                            for k in 0..held {
                                let as_owned = match style {
                                    0 => false,
                                    1 => true,
                                    _ => k % 2 == 1,
                                };
                                if as_owned {
                                    owned.push(s2.clone().access_owned());
                                } else {
                                    borrowed.push(s2.access());
                                }
                            }
                            htx.send(()).unwrap();
                            grx.recv().unwrap();
                            panic::resume_unwind(Box::new("holder failed")); // no panic hook, no output
                        }));
                        assert!(r.is_err());
                    });
                    hrx.recv().unwrap(); // the holder has its guards
                    let s3 = sem.clone();
                    let spawn_waiter = move || {
                        std::thread::spawn(move || {
                            for _ in 0..permits {
                                s3.acquire(); // all of them: needs every permit the failed holder had
                            }
                            let _ = tx.send(());
                        })
                    };
                    if waiter_first {
                        let _w = spawn_waiter(); // (very likely) parked in acquire() when the holder fails
                        std::thread::sleep(Duration::from_millis(2));
                        gtx.send(()).unwrap();
                        holder.join().unwrap();
                    } else {
                        gtx.send(()).unwrap();
                        holder.join().unwrap();
                        let _w = spawn_waiter();
                    }
                    if rx.recv_timeout(Duration::from_secs(20)).is_err() {
                        return Err(format!(
                            "deadlock: permits not available again after a holder failed while holding guards (permits={permits} held={held} style={style} waiter_first={waiter_first})"
                        ));
                    }
                }
            }
        }
    }
    Ok(cases)
}

fn arg(args: &[String], name: &str, default: &str) -> String {
    args.iter()
        .position(|a| a == name)
        .and_then(|i| args.get(i + 1).cloned())
        .unwrap_or_else(|| default.to_string())
}

fn bounds_from(args: &[String]) -> Bounds {
    Bounds {
        max_threads: arg(args, "--max-threads", "4").parse().unwrap(),
        max_pairs: arg(args, "--max-pairs", "3").parse().unwrap(),
        max_permits: arg(args, "--max-permits", "2").parse().unwrap(),
        spurious: arg(args, "--spurious", "2").parse().unwrap(),
    }
}

fn main() {
    let args: Vec<String> = std::env::args().collect();
    if args.len() < 2 {
        eprintln!("usage: b1 run|replay ...");
        std::process::exit(2);
    }
    let b = bounds_from(&args);
    let mut cfg = shuttle::Config::new();
    cfg.stack_size = 256 * 1024;
    cfg.max_steps = shuttle::MaxSteps::FailAfter(200_000);
    let t0 = std::time::Instant::now();
    let mode = args[1].as_str();
    if mode == "unwind" {
        let r = unwind_mode();
        println!(
            "{{\"failed\": {}, \"executions\": {}, \"acquisitions\": 0, \"waits\": 0, \"spurious_fired\": 0, \"moved_guards\": 0, \"scen_hash\": 0, \"wall_s\": {:.3}, \"message\": \"{}\"}}",
            r.is_err(),
            r.as_ref().copied().unwrap_or(0),
            t0.elapsed().as_secs_f64(),
            r.as_ref().err().cloned().unwrap_or_default()
        );
        std::process::exit(if r.is_err() { 1 } else { 0 });
    }
    let result = match mode {
        "run" => {
            let seed: u64 = arg(&args, "--seed", "1").parse().unwrap();
            let iters: usize = arg(&args, "--iters", "10000").parse().unwrap();
            let out = arg(&args, "--out", "/tmp");
            cfg.failure_persistence = shuttle::FailurePersistence::File(Some(std::path::PathBuf::from(&out)));
            let sched = arg(&args, "--sched", "random");
            panic::catch_unwind(move || match sched.as_str() {
                "pct" => {
                    let depth: usize = arg(&args, "--depth", "3").parse().unwrap();
                    let s = shuttle::scheduler::PctScheduler::new_from_seed(seed, depth, iters);
                    shuttle::Runner::new(s, cfg).run(move || scenario(b));
                }
                "dfs" => {
                    let s = shuttle::scheduler::DfsScheduler::new(Some(iters), true);
                    shuttle::Runner::new(s, cfg).run(move || scenario(b));
                }
                _ => {
                    let s = shuttle::scheduler::RandomScheduler::new_from_seed(seed, iters);
                    shuttle::Runner::new(s, cfg).run(move || scenario(b));
                }
            })
        }
        "replay" => {
            let file = arg(&args, "--file", "");
            panic::catch_unwind(move || shuttle::replay_from_file(move || scenario(b), &file))
        }
        _ => {
            eprintln!("unknown mode");
            std::process::exit(2);
        }
    };
    let failed = result.is_err();
    let msg = match &result {
        Err(e) => e
            .downcast_ref::<String>()
            .cloned()
            .or_else(|| e.downcast_ref::<&str>().map(|s| s.to_string()))
            .unwrap_or_default(),
        Ok(_) => String::new(),
    };
    let msg: String = msg.chars().filter(|c| *c != '"' && *c != '\\' && *c != '\n').take(400).collect();
    println!(
        "{{\"failed\": {}, \"executions\": {}, \"acquisitions\": {}, \"waits\": {}, \"spurious_fired\": {}, \"moved_guards\": {}, \"scen_hash\": {}, \"wall_s\": {:.3}, \"message\": \"{}\"}}",
        failed,
        EXECUTIONS.load(Ordering::Relaxed),
        ACQUISITIONS.load(Ordering::Relaxed),
        WAITS.load(Ordering::Relaxed),
        SPURIOUS_FIRED.load(Ordering::Relaxed),
        MOVED_GUARDS.load(Ordering::Relaxed),
        SCEN_HASH.load(Ordering::Relaxed),
        t0.elapsed().as_secs_f64(),
        msg
    );
    std::process::exit(if failed { 1 } else { 0 });
}
