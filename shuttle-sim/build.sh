#!/bin/sh
# builds the shuttle harnesses (engine B) offline against the sources in /repo
set -e
cd "$(dirname "$0")/.."
python3 - <<'PY'
import sys
sys.path.insert(0, ".")
from sim import shuttle
import os
shuttle.build_b1()
if os.path.isdir(shuttle.B2_DIR):
    shuttle.build_b2()
print("shuttle harnesses built")
PY
