"""C04 - a stale report never causes removal of changed data.

Histories on the simulated clock: `group` (serial) -> actor edits -> one dedupe operation.
An edit lands (i) inside the group run at a rendezvous before the n-th open/read/stat of a file
or before the report is written, (ii) between the two runs, or (iii) inside the dedupe run right
before its first stat of the edited file.  Oracle: content conservation from the state right
after the last edit to the final state."""
import os
import random

from .. import core, ops, gen, report, actors
from ..core import T0_NS, b2s, s2b, rule, stable_hash
from ..world import World, inventory, contents_of, inv_brief

ID = "C04"
LEVEL = "exploration"
BUDGET = {"quick": {"n": 1500, "wall_s": 400}, "thorough": {"n": 20000, "wall_s": 3300}}
RULE = ("per history: world of 1..4 duplicate groups over 1..2 roots (--isolate in 30%, hard links / -H in 25%, "
        "--priority or -n 2 on the dedupe side in 30%); 1..2 edits drawn from {rewrite same/other length, append, "
        "truncate, delete, delete+recreate, replace by directory, by symlink to a member / to an outside file, touch}, "
        "each stamped with the simulated now; edit position drawn from {rendezvous before the n-th open/read/stat of "
        "the edited or another file during group, before the report is written, between the runs after 100us/1ms/1s/"
        "1day, rendezvous before dedupe's first stat of the file}; 5 operations x text/JSON report. thorough adds, for "
        "fixed scenario worlds, EVERY recorded pause point x every edit kind x every operation. non-trivial = an edit "
        "was applied and the dedupe command ran; distinct = distinct trace signatures")
ASSUMPTIONS = [
    "every edit moves mtime forward to the simulated now (mtime-preserving replacement is outside the guarantee)",
    "simulated steps >= 100us: the same-nanosecond case is never generated",
    "group runs with --threads 1 so that a pause position is an exact point of the run",
    "only verdict: content conservation (which warning is printed is not judged)",
]
STEPS = [100_000, 1_000_000, 10**9, 86400 * 10**9]
T_START = T0_NS + 123_456_789  # sub-millisecond part matters for the text report's ms timestamp


def _c(fam, n, flips=()):
    return {"fam": fam, "len": n, "flips": [list(f) for f in flips]}


def fixed_worlds():
    ws = []
    w = World(); w.add_file("r/a", _c(1, 300)); w.add_file("r/b", _c(1, 300)); ws.append(w)
    w = World(); w.add_file("r/a", _c(2, 5000)); w.add_file("r/b", _c(2, 5000)); w.add_file("r/c", _c(2, 5000)); ws.append(w)
    w = World(); w.add_file("r/a", _c(3, 70000)); w.add_file("r/d/b", _c(3, 70000)); w.add_file("r/u", _c(4, 70000)); ws.append(w)
    w = World(); w.add_file("r/a", _c(5, 40)); w.add_file("r/b", _c(5, 40)); w.add_file("r/x", _c(6, 90)); w.add_file("r/y", _c(6, 90)); ws.append(w)
    return ws


def members(world):
    """paths that have a duplicate twin in the world (by content spec)"""
    from ..world import content_key
    by = {}
    for e in world.entries:
        if e["t"] == "f":
            by.setdefault(content_key(e["c"]), []).append(e["p"])
    return [g for g in by.values() if len(g) >= 2]


def gen_case(seed, i):
    rng = random.Random(stable_hash(seed, ID, i))
    cfg = {"kind": rng.choice(["ssd", "ssd", "hdd"])}
    w = World()
    ngroups = rng.randint(1, 4)
    # group / dedupe options that change which members form one replica and which one is retained
    roots, gflags, dargs = ["r"], [], []
    dirs = ["r", "r", "r/d", "r/e/f"]
    r_ = rng.random()
    if r_ < 0.3:
        roots, gflags, dirs = ["r", "s"], ["--isolate"], ["r", "r/d", "r/e/f", "s", "s", "s/q"]
    elif r_ < 0.4:
        roots, dirs = ["r", "s"], ["r", "r/d", "s", "s/q"]
    hardlinks = rng.random() < 0.25
    if hardlinks and rng.random() < 0.5 and not gflags:
        gflags = ["-H"]
    r_ = rng.random()
    if r_ < 0.2:
        dargs = ["--priority", rng.choice(["newest", "oldest", "most-nested", "bottom", "most-recently-modified"])]
    elif r_ < 0.3:
        dargs = ["-n", "2"]
    elif r_ < 0.45:
        # options given on the dedupe side that restate what the report header would supply anyway
        dargs = rng.choice([["-n", "1"], ["--rf-over", "1"], ["--rf-over=1", "--priority", "top"]])
    # the length check of the dedupe commands is off after `group --transform` (automatically) or with
    # --no-check-size: then only the modification time protects a changed file; empty files (-s 0) too
    r_ = rng.random()
    if r_ < 0.12 and "-H" not in gflags:
        gflags = gflags + rng.choice([["--transform", "cat"], ["--transform", "tr a-m A-M"], ["--transform", "head -c 20"],
                                      # a program that works on the original files themselves (and here leaves them alone)
                                      ["--transform", "true $IN", "--in-place", "--no-copy"],
                                      ["--transform", "cat $IN", "--no-copy"]])
    elif r_ < 0.22:
        dargs = dargs + ["--no-check-size"]
    lens = [1, 40, 300, 5000, 70000]
    if rng.random() < 0.2:
        gflags = gflags + ["--min", "0"]
        lens = [0, 0, 1, 40]
    for g in range(ngroups):
        n = rng.choice(lens)
        for k in range(rng.randint(2, 4)):
            d = rng.choice(dirs)
            w.add_file("%s/g%dk%d" % (d, g, k), _c(g + 1, n))
            if hardlinks and rng.random() < 0.3:
                w.add_hardlink("%s/g%dk%dh" % (rng.choice(dirs), g, k), "%s/g%dk%d" % (d, g, k))
    if rng.random() < 0.5:
        w.add_file("r/uniq", _c(99, 300))
    groups = members(w)
    link_member = None
    if not gflags and rng.random() < 0.12:
        # a report made with -S: one member is a symbolic link whose target lies OUTSIDE the scanned roots
        # (a copy of group 0); it sorts first in its group, so it is the member that is kept
        gflags = ["-S"]
        g0 = groups[0]
        src = [e for e in w.entries if e["t"] == "f" and e["p"] == g0[0]][0]
        w.add_file("elsewhere/t0", dict(src["c"]))
        w.add_symlink("r/0link", "../elsewhere/t0")
        link_member = "r/0link"
    edits = []
    for j in range(rng.choice([1, 1, 2])):
        grp = rng.choice(groups)
        tgt = rng.choice(grp)
        kind = rng.choice(actors.EDIT_KINDS)
        if link_member and j == 0:
            if rng.random() < 0.5:
                tgt, kind = link_member, "rewrite_through"      # a plain write to the member path, i.e. through the link
            else:
                kind = "to_symlink_outside"                     # in a -S report a link is a legitimate member: a member
                                                                # that BECOMES a link is told by the link's own time only
        ed = {"kind": kind, "p": tgt, "uid": "e%d-%d" % (i, j)}
        if kind == "to_symlink_outside" and "-S" not in gflags:
            ed["old_link"] = True
        if kind == "to_symlink_member":
            ed["other"] = rng.choice([x for x in grp if x != tgt])
        where = rng.choice(["group", "group", "between", "dedupe"])
        if where == "group":
            r = rng.random()
            if r < 0.15:
                ed["at"] = {"where": "group", "kind": "write", "path": "<stdout>", "ord": 0}
            else:
                who = tgt if rng.random() < 0.6 else rng.choice(rng.choice(groups))
                ed["at"] = {"where": "group", "kind": rng.choice(["open", "open", "read", "stat"]), "path": who,
                            "ord": rng.choice([0, 0, 1, 1, 2, 3])}
        elif where == "between":
            ed["at"] = {"where": "between"}
        else:
            ed["at"] = {"where": "dedupe"}
        ed["step"] = rng.choice(STEPS)
        edits.append(ed)
    return {"i": i, "world": w.to_json(), "cfg": cfg, "edits": edits, "op": rng.choice(ops.OPS),
            "roots": roots, "gflags": gflags, "dargs": dargs,
            "fmt": rng.choice(["default", "json"]), "gap": rng.choice(STEPS),
            # the two processes may live in any time zone (POSIX TZ strings need no tz database)
            "tz": rng.choice(["UTC0", "UTC0", "CET-2", "EST5", "IST-5:30", "LINT-14", "HST10"]),
            "tz2": rng.choice([None, None, "UTC0", "JST-9", "PST8"]),
            # the cut-off given explicitly with -m: the very instant `group` started (what the header supplies anyway),
            # written as wall-clock time of the zone the dedupe command runs in, or with an explicit UTC offset
            "mspell": rng.choice([None, None, None, "local", "+09:00", "-08:00", "+05:30", "+00:00"])}


def gen_cases(tier, seed):
    for i in range(BUDGET[tier]["n"]):
        yield gen_case(seed, i)
    if tier == "thorough":
        # exhaustive over the recorded pause points of the fixed scenario worlds
        idx = 10**6
        for wi, w in enumerate(fixed_worlds()):
            base = {"world": w.to_json(), "cfg": {"kind": "hdd" if wi == 2 else "ssd"}, "edits": [], "op": "remove",
                    "fmt": "default", "gap": 10**9}
            pts = record_points(base)
            grp = members(w)[0]
            for (kind, path, ord_) in pts:
                for ek in actors.EDIT_KINDS:
                    for op in ops.OPS:
                        for tgt in grp[:2]:
                            idx += 1
                            ed = {"kind": ek, "p": tgt, "uid": "x%d" % idx, "step": 10**9,
                                  "at": {"where": "group", "kind": kind, "path": path, "ord": ord_}}
                            if ek == "to_symlink_member":
                                ed["other"] = [x for x in grp if x != tgt][0]
                            if ek == "to_symlink_outside":
                                ed["old_link"] = True
                            yield dict(base, i=idx, edits=[ed], op=op, fmt="json" if idx % 2 else "default")


def record_points(case):
    """(kind, world-relative path or <stdout>, ord) of every candidate pause point of the group run"""
    with core.RunDir("c04rec") as rd:
        World.from_json(case["world"]).materialise(rd.world)
        res = ops.group(rd, [os.path.join(rd.world, "r")], ["--threads", "1"], env=_env(case), now_ns=T_START)
        pts = []
        for e in res.trace.events:
            if e.kind in ("open", "read", "stat"):
                rel = ops.relw(rd, e.path)
                if rel is not None and rel.startswith(b"r/"):
                    pts.append((e.kind, b2s(rel), e.ord))
            elif e.kind == "write" and e.path == b"<stdout>" and e.ord == 0:
                pts.append(("write", "<stdout>", 0))
        return pts


def _env(case, second=False):
    e = {"FCLONES_VERIF_DEVICES": "/=%s:simroot" % case["cfg"].get("kind", "ssd")}
    tz = case.get("tz")
    if second and case.get("tz2"):
        tz = case["tz2"]        # the dedupe run happens on a machine / in a shell with another zone
    if tz:
        e["TZ"] = tz
    return e


def shrink(case):
    if len(case["edits"]) > 1:
        for i in range(len(case["edits"])):
            c = dict(case); c["edits"] = case["edits"][:i] + case["edits"][i + 1:]; yield c
    ents = case["world"]["entries"]
    used = {e["p"] for e in case["edits"]} | {e.get("other") for e in case["edits"]} | {e["at"].get("path") for e in case["edits"]}
    for i, e in enumerate(ents):
        if e["p"] in used:
            continue
        c = dict(case); c["world"] = {"entries": ents[:i] + ents[i + 1:]}; yield c
    if case["fmt"] != "default":
        c = dict(case); c["fmt"] = "default"; yield c
    if case.get("tz2"):
        c = dict(case); c["tz2"] = None; yield c
    if case.get("mspell"):
        c = dict(case); c["mspell"] = None; yield c
    if case.get("dargs"):
        c = dict(case); c["dargs"] = []; yield c


def _posix_tz_offset(tz):
    """seconds east of UTC of a POSIX TZ string without DST rule, e.g. JST-9 -> +32400, IST-5:30 -> +19800, EST5 -> -18000"""
    import re
    m = re.match(r"^[A-Za-z]+([+-]?)(\d+)(?::(\d+))?$", tz)
    sec = int(m.group(2)) * 3600 + int(m.group(3) or 0) * 60
    return sec if m.group(1) == "-" else -sec


def run_case(case):
    viol = []
    with core.RunDir("c04") as rd:
        World.from_json(case["world"]).materialise(rd.world)
        os.makedirs(os.path.join(rd.world, "T"), exist_ok=True)
        clock = [T_START]
        applied = []
        baseline = [None]

        def do_edit(ed):
            clock[0] += ed["step"]
            ok = actors.apply_edit(rd.world, ed, clock[0])
            clock[0] += ed["step"]
            if ok:
                applied.append(ed)
            return ok

        g_edits = [e for e in case["edits"] if e["at"]["where"] == "group"]
        b_edits = [e for e in case["edits"] if e["at"]["where"] == "between"]
        d_edits = [e for e in case["edits"] if e["at"]["where"] == "dedupe"]
        plan = []
        for n, ed in enumerate(g_edits):
            at = ed["at"]
            path = at["path"] if at["path"] == "<stdout>" else b2s(ops.absw(rd, at["path"]))
            plan.append(rule(kind=at["kind"], path=path, ord=at["ord"], act="pause:%d" % n, id=n))

        def on_hit_group(hid):
            do_edit(g_edits[hid])
            return clock[0]

        gargs = ["--threads", "1"] + case.get("gflags", []) + (["-f", "json"] if case["fmt"] == "json" else [])
        g = ops.group(rd, [os.path.join(rd.world, r) for r in case.get("roots", ["r"])], gargs, plan=plan, env=_env(case), now_ns=clock[0],
                      on_hit=on_hit_group if g_edits else None, seed=3)
        traces = [g.trace]
        if g.rc != 0 or g.timed_out:
            # a file vanishing under group is C15's business; without a report there is nothing to judge
            return {"violations": [], "nontrivial": False, "sig": None, "probes": {"group_failed": 1},
                    "invocations": 1, "info": {"group_rc": g.rc}}
        rep_bytes = g.out
        # (ii) between the runs
        clock[0] += case["gap"]
        for ed in b_edits:
            do_edit(ed)
        clock[0] += 10**9
        baseline[0] = inventory(rd.world)
        # (iii) during dedupe, right before its first stat of the edited file
        # "before dedupe inspects the file": the file is the inode - pause before the first stat of ANY of
        # its paths (hard links), whichever the command looks at first
        dplan = []
        rule_edit = {}
        for n, ed in enumerate(d_edits):
            ident = baseline[0].get(s2b(ed["p"]))
            same = [p for p, e in baseline[0].items() if ident is not None and e.type == "f" and ident.type == "f" and e.ident == ident.ident] or [s2b(ed["p"])]
            for p in sorted(same):
                rid = len(rule_edit)
                rule_edit[rid] = n
                dplan.append(rule(kind="stat", path=b2s(ops.absw(rd, p)), ord=0, act="pause:%d" % rid, id=rid))
        edits_done = set()

        def on_hit_dedupe(hid):
            n = rule_edit[hid]
            if n not in edits_done:
                edits_done.add(n)
                do_edit(d_edits[n])
                baseline[0] = inventory(rd.world)   # conservation counts from the state after the last edit
            return clock[0]

        mextra = []
        if case.get("mspell"):
            import time as _time
            sp = case["mspell"]
            off = _posix_tz_offset(case.get("tz2") or case.get("tz") or "UTC0") if sp == "local" else (int(sp[:3]) * 3600 + int(sp[0] + sp[4:]) * 60)
            mextra = ["-m", _time.strftime("%Y-%m-%d %H:%M:%S", _time.gmtime(T_START // 10**9 + off)) + ("" if sp == "local" else " " + sp)]
        res = ops.dedupe(rd, case["op"], rep_bytes, extra=case.get("dargs", []) + mextra, target=os.path.join(rd.world, "T"), plan=dplan, env=_env(case, True),
                         now_ns=clock[0], on_hit=on_hit_dedupe if d_edits else None, seed=5, threads_env=1)
        traces.append(res.trace)
        after = inventory(rd.world)
        if res.timed_out:
            viol.append({"clause": "terminates", "detail": "dedupe hung"})
        lost = contents_of(baseline[0]) - contents_of(after)
        if lost:
            viol.append({"clause": "content-conserved", "applied": [dict(e) for e in applied], "detail":
                         "content(s) %s present after the last edit are gone after `%s` | edits applied=%s | report ts vs clock: %s | stderr=%s | before=%s | after=%s" % (
                             sorted(x[:8] for x in lost), case["op"], [(e["kind"], e["p"], e["at"]) for e in applied],
                             rep_bytes[:160].decode("utf-8", "replace").replace("\n", " / "),
                             res.err.decode("utf-8", "replace")[-500:], inv_brief(baseline[0]), inv_brief(after))})
        verdict = ",".join(sorted({v["clause"] for v in viol}))
        fired_pause = len(g.trace.pauses) + len(res.trace.pauses)
        return {
            "violations": viol,
            "nontrivial": bool(applied),
            "sig": ops.trace_sig(rd, traces, verdict + "|" + ",".join(e["kind"] + e["at"]["where"] for e in applied)),
            "faults": dict(ops.fault_counts(traces), **{"edit_" + e["kind"]: 1 for e in applied}),
            "probes": {"stop_the_world_pause_hit": fired_pause, "edits_applied": len(applied),
                       "edits_in_group": len([e for e in applied if e["at"]["where"] == "group"]),
                       "edits_between": len([e for e in applied if e["at"]["where"] == "between"]),
                       "edits_in_dedupe": len([e for e in applied if e["at"]["where"] == "dedupe"]),
                       "group_skipped_warning": int(b"updated after" in res.err),
                       "op_" + case["op"]: 1},
            "sim_ns": clock[0] - T_START,
            "invocations": 2,
            "info": {"op": case["op"], "fmt": case["fmt"], "edits": [(e["kind"], e["p"], e["at"]) for e in case["edits"]],
                     "applied": len(applied), "rc": res.rc},
        }


# ----------------------------------------------------------------------------- known findings

def _symlink_then_target_changed(case, violation):
    """A member X was replaced by a symlink to member Y (so fclones, whose metadata follows links,
    keeps treating X as a regular copy) and Y was changed later, inside the dedupe run, i.e. after
    fclones had looked at Y's inode through X but before it reached Y by its own path."""
    ap = violation.get("applied", [])
    for i, e1 in enumerate(ap):
        if e1["kind"] != "to_symlink_member":
            continue
        for e2 in ap[i + 1:]:
            if e2["p"] == e1.get("other") and e2["at"]["where"] == "dedupe":
                return True
    return False


# c04-symlink-member-then-target-changed was repaired in /repo: its witness is a regression case now
KNOWN_PREDICATES = {}
