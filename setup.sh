#!/bin/sh
# Builds the framework from files on disk only (offline): the libc seam, the hooked fclones
# binary, and (when present) the shuttle harness.  Idempotent.
set -e
cd "$(dirname "$0")"
export CARGO_NET_OFFLINE=true
mkdir -p .build evidence replays /dev/shm/fclonessim
python3 - <<'PY'
import sys
sys.path.insert(0, ".")
from sim import core
core.ensure_built(verbose=True)
PY
if [ -d shuttle-sim ] && [ -x shuttle-sim/build.sh ]; then
  ./shuttle-sim/build.sh
fi
echo "setup ok"
