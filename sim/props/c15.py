"""C15 - an unreadable or vanishing file affects only itself.

Fault enumeration over the recorded calls of scenario worlds: for every in-world entry and every
recorded (stat/lstat/open/read/opendir/readdir/readlink/fiemap, ordinal) inject EACCES, EIO,
ENOENT, EINTR (and EOF on reads); real vanishing by an actor at the rendezvous before that call; pairs
on two different entries."""
import os
import random
import shutil

from .. import core, ops, gen, report, model
from ..core import T0_NS, b2s, s2b, rule, stable_hash
from ..world import World

ID = "C15"
LEVEL = "fault_enumeration"
BUDGET = {"quick": {"wall_s": 420}, "thorough": {"wall_s": 3300}}
EXHAUSTIVE = {"quick": True, "thorough": True}
ERRNOS = ["EACCES", "EIO", "ENOENT", "EINTR"]
KINDS = ("stat", "lstat", "open", "read", "opendir", "readdir", "readlink", "fiemap")
RULE = ("scenario worlds (near-duplicate families over nested directories, hard links, symlinks with -L, all four "
        "stages forced by knob overrides) x every recorded (call kind, path, ordinal) of the fault-free group run x "
        "{EACCES, EIO, ENOENT, EINTR} (+EOF for reads), + real vanishing (actor deletes the entry at the rendezvous before "
        "that call), + pairs on two different entries (seeded sample in quick, all pairs of first-stage calls in "
        "thorough); non-trivial = the injected action fired; distinct = distinct trace signatures")
ASSUMPTIONS = [
    "two-valued oracle (DESIGN 4.x): report == reference partition of the scanned set minus L, where L is a subset of "
    "the faulted entry (its subtree for a directory) that is absent from the report",
    "serial run (--threads 1): per-path ordinals are exact positions",
    "the first stat of an input path given as an ARGUMENT is not faulted (fclones rejects inaccessible inputs up front by design); later stats of input paths, and all stats of input paths read from --stdin, are",
]


def _c(fam, n, flips=()):
    return {"fam": fam, "len": n, "flips": [list(f) for f in flips]}


KNOBS = {"FCLONES_VERIF_MIN_PREFIX": "16", "FCLONES_VERIF_MAX_PREFIX": "64", "FCLONES_VERIF_BUF_LEN": "32",
         "FCLONES_VERIF_SUFFIX_THRESHOLD": "128"}


def scenarios(tier):
    sc = []
    w = World()
    w.add_file("r/a", _c(1, 300)); w.add_file("r/d1/b", _c(1, 300)); w.add_file("r/d1/d2/c", _c(1, 300))
    w.add_file("r/p", _c(1, 300, [(20, 1)])); w.add_file("r/d1/q", _c(1, 300, [(290, 1)])); w.add_file("r/m", _c(1, 300, [(150, 3)]))
    w.add_file("r/d1/d2/d3/s1", _c(2, 40)); w.add_file("r/s2", _c(2, 40)); w.add_file("r/u", _c(3, 77))
    sc.append({"name": "stages-ssd", "world": w.to_json(), "roots": ["r"], "gargs": [], "kind": "ssd", "knobs": KNOBS})
    w = World()
    w.add_file("r/a", _c(4, 200)); w.add_hardlink("r/a2", "r/a"); w.add_file("r/x/b", _c(4, 200)); w.add_file("r/x/y/c", _c(4, 200))
    w.add_file("r/x/e", _c(5, 10)); w.add_file("r/f", _c(5, 10))
    sc.append({"name": "hdd-hardlinks", "world": w.to_json(), "roots": ["r"], "gargs": [], "kind": "hdd", "knobs": KNOBS})
    w = World()
    w.add_file("r1/a", _c(6, 100)); w.add_file("r2/b", _c(6, 100)); w.add_file("r2/sub/c", _c(6, 100))
    w.add_symlink("r1/l", "../r2/b"); w.add_symlink("r1/dl", "../r2/sub")
    sc.append({"name": "follow-links", "world": w.to_json(), "roots": ["r1"], "gargs": ["-L"], "kind": "unknown", "knobs": KNOBS})
    # several input paths: a fault on one of them (after the up-front accessibility check, which rejects the whole
    # command line by design) must cost that input path only
    w = World()
    w.add_file("r1/a", _c(11, 120)); w.add_file("r2/b", _c(11, 120)); w.add_file("r2/s/c", _c(11, 120)); w.add_file("r3/d", _c(11, 120))
    w.add_file("r1/e", _c(12, 30)); w.add_file("r3/f", _c(12, 30))
    sc.append({"name": "several-inputs", "world": w.to_json(), "roots": ["r1", "r2", "r3"], "gargs": [], "kind": "ssd", "knobs": KNOBS,
               "root_faults_from": 1})
    sc.append({"name": "stdin-inputs", "world": w.to_json(), "roots": ["r1", "r2", "r2/s/c", "r3"], "gargs": [], "kind": "ssd", "knobs": KNOBS,
               "root_faults_from": 0, "stdin_roots": True})
    # --one-fs: every directory is stat'ed for its device - one more call position per directory
    w = World()
    w.add_file("t/x", _c(13, 90)); w.add_file("t/y", _c(13, 90)); w.add_file("t/bad/p", _c(14, 50)); w.add_file("t/bad/q", _c(14, 50))
    w.add_file("t/ok/r", _c(15, 70)); w.add_file("t/ok/s", _c(15, 70)); w.add_file("t/ok/deep/u", _c(13, 90))
    sc.append({"name": "one-fs", "world": w.to_json(), "roots": ["t"], "gargs": ["--one-fs"], "kind": "ssd", "knobs": KNOBS})
    # -S: symbolic links to files are reported as entries of their own (content = the target's); a link whose
    # target cannot be examined is one failing entry like any other
    w = World()
    w.add_file("r/a", _c(16, 150)); w.add_file("r/k/b", _c(16, 150)); w.add_file("store/t", _c(16, 150)); w.add_file("store/u", _c(17, 60))
    w.add_file("r/v", _c(17, 60)); w.add_symlink("r/l", "../store/t"); w.add_symlink("r/k/l2", "../../store/u"); w.add_symlink("r/k/l3", "../a")
    sc.append({"name": "report-links", "world": w.to_json(), "roots": ["r"], "gargs": ["-S"], "kind": "ssd", "knobs": KNOBS})
    # --unique over files long enough for the suffix stage: classes of one skip the contents stage, so a file whose
    # tail could not be read must already be gone by then (it is not "unique", it is unread)
    w = World()
    w.add_file("r/a", _c(18, 300)); w.add_file("r/b", _c(18, 300)); w.add_file("r/d/c", _c(18, 300)); w.add_file("r/u", _c(19, 300))
    w.add_file("r/d/v", _c(18, 300, [(295, 1)]))
    sc.append({"name": "unique-suffix-stage", "world": w.to_json(), "roots": ["r"], "gargs": ["--unique"], "kind": "ssd", "knobs": KNOBS,
               "filter": {"unique": True}})
    if tier == "thorough":
        w = World()
        for i in range(3):
            w.add_file("r/big%d" % i, _c(7, 70000))
        w.add_file("r/bigx", _c(7, 70000, [(69999, 1)]))
        w.add_file("r/d/bigy", _c(7, 70000, [(5000, 1)]))
        sc.append({"name": "shipped-constants", "world": w.to_json(), "roots": ["r"], "gargs": [], "kind": "ssd", "knobs": {}})
        w = World()
        w.add_file("r/a", _c(8, 90)); w.add_file("r/b", _c(8, 90)); w.add_file("r/c", _c(8, 90))
        sc.append({"name": "unique-filter", "world": w.to_json(), "roots": ["r"], "gargs": ["--unique"], "kind": "ssd", "knobs": KNOBS,
                   "filter": {"unique": True}})
        w = World()
        w.add_file("r/a", _c(9, 64)); w.add_file("r/b", _c(9, 64)); w.add_file("r/t/c", _c(9, 64))
        sc.append({"name": "cache", "world": w.to_json(), "roots": ["r"], "gargs": ["--cache"], "kind": "ssd", "knobs": KNOBS})
        w = World()
        w.add_file("r/a", _c(10, 50, ())); w.add_file("r/b", _c(10, 50)); w.add_file("r/t/c", _c(10, 50))
        for e in w.entries:
            e["c"]["text"] = 1
        sc.append({"name": "transform", "world": w.to_json(), "roots": ["r"], "gargs": ["--transform", "cat"], "kind": "ssd", "knobs": KNOBS})
    return sc


def _env(sc):
    e = dict(sc.get("knobs", {}))
    e["FCLONES_VERIF_DEVICES"] = "/=%s:simroot" % sc["kind"]
    return e


def _group(rd, sc, plan=None, on_hit=None):
    roots = [os.path.join(rd.world, r) for r in sc["roots"]]
    if sc.get("stdin_roots"):
        return ops.group(rd, [], sc["gargs"] + ["--stdin", "--threads", "1", "-f", "json"], env=_env(sc), plan=plan or [],
                         on_hit=on_hit, seed=9, stdin="".join(r + "\n" for r in roots).encode())
    return ops.group(rd, roots, sc["gargs"] + ["--threads", "1", "-f", "json"], env=_env(sc), plan=plan or [],
                     on_hit=on_hit, seed=9)


def record(sc):
    with core.RunDir("c15rec") as rd:
        World.from_json(sc["world"]).materialise(rd.world)
        res = _group(rd, sc)
        if res.rc != 0:
            # not a harness matter: on these worlds the unchanged tree always succeeds, and e.g. the extent
            # query fails naturally on tmpfs for every file of an HDD/unknown device - the property applies
            return None
        pts = []
        rootset = {s2b(r) for r in sc["roots"]}
        for e in res.trace.events:
            if e.kind not in KINDS:
                continue
            rel = ops.relw(rd, e.path)
            if rel is None:
                continue
            if rel in rootset and e.kind in ("stat", "lstat") and e.ord < sc.get("root_faults_from", 10**9):
                continue
            if os.path.basename(rel) in (b".gitignore", b".fdignore"):
                continue
            pts.append((e.kind, b2s(rel), e.ord, e.ret))
        # directory entries as the listing delivers them (for file systems that do not fill d_type: the entry
        # then needs an lstat of its own, one more call that can fail)
        sc["_listed"] = []
        for e in res.trace.events:
            if e.kind == "readdir" and e.ret == 0 and (e.extra or "").startswith("name="):
                rel = ops.relw(rd, e.path)
                nm = core.unpct(e.extra[5:])
                if rel is not None and nm not in (None, b".", b".."):
                    sc["_listed"].append((b2s(rel), e.ord, b2s(nm)))
        return pts


def gen_cases(tier, seed):
    rng = random.Random(stable_hash(seed, ID, "pairs"))
    for sc in scenarios(tier):
        pts = record(sc)
        if pts is None:
            yield {"sc": sc, "faults": []}        # judged by run_case: the run must finish successfully
            continue
        for (kind, path, ord_, nat) in pts:
            # an injected EOF is a truncation only where the real call would have delivered data
            acts = ["errno:" + e for e in ERRNOS] + (["eof"] if (kind == "read" and nat > 0) else [])
            for a in acts:
                yield {"sc": sc, "faults": [{"kind": kind, "path": path, "ord": ord_, "act": a}]}
            yield {"sc": sc, "faults": [{"kind": kind, "path": path, "ord": ord_, "act": "vanish"}]}
        # an entry delivered with d_type = DT_UNKNOWN whose follow-up lstat fails: it alone is lost, with a warning
        for (d_, ord_, nm_) in sc.pop("_listed", []):
            if nm_ in (".gitignore", ".fdignore"):
                continue
            for a in ["errno:" + e for e in ERRNOS]:
                yield {"sc": sc, "faults": [{"kind": "readdir", "path": d_, "ord": ord_, "act": "dtunknown", "aux": True},
                                            {"kind": "lstat", "path": d_ + "/" + nm_, "ord": 0, "act": a}]}
        # pairs on two different entries
        first = [p for p in pts if p[2] == 0 and p[0] in ("stat", "open", "read", "opendir")]
        pairs = [(a, b) for i, a in enumerate(first) for b in first[i + 1:] if a[1] != b[1]]
        if tier == "quick":
            rng.shuffle(pairs)
            pairs = pairs[:60]
        for a, b in pairs:
            e1, e2 = rng.choice(ERRNOS), rng.choice(ERRNOS)
            yield {"sc": sc, "faults": [{"kind": a[0], "path": a[1], "ord": a[2], "act": "errno:" + e1},
                                        {"kind": b[0], "path": b[1], "ord": b[2], "act": "errno:" + e2}]}


def shrink(case):
    if len(case["faults"]) > 1:
        for i in range(len(case["faults"])):
            c = dict(case); c["faults"] = case["faults"][:i] + case["faults"][i + 1:]; yield c
    ents = case["sc"]["world"]["entries"]
    used = {f["path"] for f in case["faults"]}
    for i, e in enumerate(ents):
        if e["p"] in used or any(u.startswith(e["p"] + "/") for u in used):
            continue
        if any(o.get("to") == e["p"] and o["t"] == "h" for o in ents):
            continue
        c = dict(case); c["sc"] = dict(case["sc"]); c["sc"]["world"] = {"entries": ents[:i] + ents[i + 1:]}
        yield c


def _under(entry, p):
    return p == entry or p.startswith(entry + b"/")


def run_case(case):
    sc = case["sc"]
    viol = []
    with core.RunDir("c15") as rd:
        World.from_json(sc["world"]).materialise(rd.world)
        roots = [os.path.join(rd.wb(), s2b(r)) for r in sc["roots"]]
        follow = "-L" in sc["gargs"]
        sel = model.scan(roots, follow=follow, report_links="-S" in sc["gargs"])
        keys = model.content_keys(sel)
        # what the faulted entries make unreachable (their subtree; with -L everything reached only through them)
        # auxiliary steps (e.g. "deliver this entry with DT_UNKNOWN") make a call position exist; they fault nothing
        eff = [f for f in case["faults"] if not f.get("aux")]
        blocked = set()
        for f in eff:
            ent = ops.absw(rd, f["path"])
            blocked.add(ent)
            blocked.add(os.path.realpath(ent))
        affected = set(sel) - set(model.scan(roots, follow=follow, report_links="-S" in sc["gargs"], blocked=blocked))
        affected |= {p for p in sel if p in blocked}
        # a reported link (-S) stands for its target: a faulted target costs the links that lead to it
        affected |= {p for p in sel if os.path.islink(p) and any(_under(b_, os.path.realpath(p)) for b_ in blocked)}
        # an entry that really vanishes takes its whole subtree with it, whichever input path leads there
        for f in eff:
            if f["act"] == "vanish":
                ent = ops.absw(rd, f["path"])
                affected |= {p for p in sel if _under(ent, p) or _under(os.path.realpath(ent), p)}
        filt = sc.get("filter", {})
        plan = []
        vanish = {}
        for n, f in enumerate(case["faults"]):
            ap = b2s(ops.absw(rd, f["path"]))
            if f["act"] == "vanish":
                plan.append(rule(kind=f["kind"], path=ap, ord=f["ord"], act="pause:%d" % n, id=n))
                vanish[n] = ops.absw(rd, f["path"])
            else:
                plan.append(rule(kind=f["kind"], path=ap, ord=f["ord"], act=f["act"], id=n))

        def on_hit(hid):
            p = vanish[hid]
            try:
                if os.path.isdir(p) and not os.path.islink(p):
                    shutil.rmtree(p)
                else:
                    os.unlink(p)
            except OSError:
                pass
            return None

        res = _group(rd, sc, plan, on_hit if vanish else None)
        fired = res.trace.fired()
        entries = [ops.absw(rd, f["path"]) for f in eff]
        # entries as the scan names them: through -L a file can be reached by its resolved path
        real_entries = []
        for ent in entries:
            real_entries.append(ent)
            rp = os.path.realpath(ent)
            if rp != ent:
                real_entries.append(rp)

        def V(clause, detail):
            viol.append({"clause": clause, "detail": "%s | scenario=%s faults=%s fired=%s | stderr=%s" % (
                detail, sc["name"], case["faults"], [e.brief() for e in fired][:3], res.err.decode("utf-8", "replace")[-700:])})

        rep = None
        if res.timed_out:
            V("terminates", "group hung")
        elif res.rc != 0:
            V("finishes-successfully", "group exited with %s" % res.rc)
        else:
            try:
                rep = report.parse_json(res.out)
            except report.ReportError as e:
                V("report-parses", str(e))
        L = set()
        if rep is not None:
            reported = {p for g in rep.groups for p in g.paths}
            # "entry" = the file, i.e. the inode with all its scanned paths: fclones reads one path per
            # inode by design, so a failure on it may leave out the other hard links too (DESIGN 4.x)
            ent_ids = {sel[p][0] for p in sel if p in affected}
            uq = filt.get("unique", False)
            full = model.expected_groups(sel, keys=keys, unique=uq)
            for p in sel:
                if p not in reported and (p in affected or sel[p][0] in ent_ids):
                    L.add(p)
            got = rep.pathsets()
            # exists L' subset of the candidates with report == partition(sel - L') ?  (greedy first)
            import itertools
            cands = sorted(L)
            tries = [tuple(cands), ()]
            if len(cands) <= 10:
                for r_ in range(1, len(cands)):
                    tries += list(itertools.combinations(cands, r_))
            ok = False
            exp = None
            for t in tries:
                e_ = model.expected_groups({p: v for p, v in sel.items() if p not in t}, keys=keys, unique=uq)
                if exp is None:
                    exp = e_
                if e_ == got:
                    ok = True
                    exp = e_
                    L = set(t)
                    break
            if not ok and any(f["act"] == "eof" for f in case["faults"]):
                # a read that ends early is a file that shrank under the scan: it may also be reported with
                # the (different) content that was actually read - but never as a duplicate (checked below)
                keys2 = dict(keys)
                for f in case["faults"]:
                    if f["act"] == "eof":
                        ap_ = ops.absw(rd, f["path"])
                        for p in sel:
                            if sel[p][0] == sel.get(ap_, (None,))[0]:
                                keys2[p] = ("short-read", b2s(ap_))
                ok = got == model.expected_groups(sel, keys=keys2, unique=uq)
            if not ok:
                V("others-unaffected", "report is neither the fault-free partition nor the partition without (part of) the faulted "
                  "entry: missing groups %s, unexpected groups %s (fault-free would be %s)" % (
                      [[b2s(ops.relw(rd, p)) for p in g] for g in exp if g not in got][:5],
                      [[b2s(ops.relw(rd, p)) for p in g] for g in got if g not in exp][:5],
                      [[b2s(ops.relw(rd, p)) for p in g] for g in full][:5]))
            outcome_changed = exp != full
            # a file whose final read failed must not be grouped with another inode
            for fe in fired:
                if fe.kind in ("read", "open") and fe.act in ("errno", "eof"):
                    ident = sel.get(fe.path, (None,))[0]
                    same = {p for p in sel if sel[p][0] == ident} | {fe.path}
                    later_open = [e for e in res.trace.main("open") if e.path in same and e.seq > fe.seq and e.ret >= 0]
                    if later_open:
                        continue
                    for g in rep.groups:
                        if fe.path in g.paths:
                            ids = {sel[p][0] for p in g.paths if p in sel}
                            if len(ids) > 1:
                                V("partial-read-not-grouped", "%r could not be read completely in its last stage but is reported as a duplicate of another file" % b2s(fe.path))
            # warning unless the entry simply disappeared
            errs = [f for f in eff if f["act"].startswith("errno:") and f["act"] != "errno:ENOENT"]
            if L and outcome_changed and errs and len(eff) == 1:
                names = [os.path.basename(e) for e in real_entries]
                w = res.warnings()
                if not any(any(nm.decode("utf-8", "replace") in l for nm in names) for l in w):
                    V("warning-for-dropped-entry", "files %s were left out after %s but no warning mentions the entry" % (
                        [b2s(ops.relw(rd, p)) for p in sorted(L)], errs[0]["act"]))
        verdict = ",".join(sorted({v["clause"] for v in viol}))
        return {
            "violations": viol,
            "nontrivial": bool(fired) or bool(res.trace.pauses),
            "sig": ops.trace_sig(rd, [res.trace], verdict),
            "faults": dict(ops.fault_counts([res.trace]), **({"actor_vanish": len(res.trace.pauses)} if res.trace.pauses else {})),
            "probes": {"entry_left_out": int(bool(L)), "report_unchanged": int(rep is not None and not L),
                       "pairs": int(len(case["faults"]) > 1), "pair_both_fired": int(len(fired) >= 2)},
            "sim_ns": 0,
            "invocations": 1,
            "info": {"scenario": sc["name"], "faults": case["faults"], "left_out": [b2s(ops.relw(rd, p)) for p in sorted(L)], "rc": res.rc},
        }
