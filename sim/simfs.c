/*
 * libsimfs.so — libc-level seam for the fclones world simulator (engine A).
 *
 * Preloaded into the real `fclones` binary (and inherited by the transform
 * children it spawns).  It contains NO policy: every decision comes from the
 * plan file written by the driver (which derives it from the run's seed).
 *
 *   environment (all set by the driver):
 *     SIMFS_ROOTS   colon separated absolute prefixes that are "in world"
 *     SIMFS_RO      colon separated prefixes declared read-only (C07 monitor)
 *     SIMFS_PLAN    plan file (rules), parsed once per process
 *     SIMFS_TRACE   trace file, appended with raw write(2), one line per event
 *     SIMFS_NOW_NS  simulated CLOCK_REALTIME in ns since the epoch
 *     SIMFS_SEED    seed of the getrandom stream
 *     SIMFS_CTL_FD  inherited socket for rendezvous with the driver (optional)
 *     SIMFS_LABELS  stat relabelling table (optional)
 *     SIMFS_FICLONE 1 = emulate FICLONE on in-world files as an atomic copy
 *
 * The seam never draws from its PRNG and never reads a real clock on a
 * logging path.
 */
#define _GNU_SOURCE
#include <dirent.h>
#include <dlfcn.h>
#include <errno.h>
#include <fcntl.h>
#include <limits.h>
#include <pthread.h>
#include <stdarg.h>
#include <stdint.h>
#include <stdio.h>
#include <stdlib.h>
#include <string.h>
#include <sys/ioctl.h>
#include <sys/stat.h>
#include <sys/syscall.h>
#include <sys/time.h>
#include <sys/types.h>
#include <sys/uio.h>
#include <time.h>
#include <unistd.h>
#include <linux/stat.h>

#ifndef FICLONE
#define FICLONE 0x40049409UL
#endif
#define FS_IOC_FIEMAP_NR 0xC020660BUL

/* ------------------------------------------------------------------ real */

static long (*real_syscall)(long, ...);
#define RAW(...) real_syscall(__VA_ARGS__)

#define DECL(ret, name, ...) static ret (*real_##name)(__VA_ARGS__)
DECL(int, open, const char *, int, ...);
DECL(int, open64, const char *, int, ...);
DECL(int, openat, int, const char *, int, ...);
DECL(int, openat64, int, const char *, int, ...);
DECL(int, creat, const char *, mode_t);
DECL(int, creat64, const char *, mode_t);
DECL(int, close, int);
DECL(ssize_t, read, int, void *, size_t);
DECL(ssize_t, write, int, const void *, size_t);
DECL(ssize_t, pread64, int, void *, size_t, off_t);
DECL(ssize_t, pwrite64, int, const void *, size_t, off_t);
DECL(ssize_t, readv, int, const struct iovec *, int);
DECL(ssize_t, writev, int, const struct iovec *, int);
DECL(int, stat, const char *, struct stat *);
DECL(int, stat64, const char *, struct stat64 *);
DECL(int, lstat, const char *, struct stat *);
DECL(int, lstat64, const char *, struct stat64 *);
DECL(int, fstat, int, struct stat *);
DECL(int, fstat64, int, struct stat64 *);
DECL(int, fstatat, int, const char *, struct stat *, int);
DECL(int, fstatat64, int, const char *, struct stat64 *, int);
DECL(int, statx, int, const char *, int, unsigned, struct statx *);
DECL(DIR *, opendir, const char *);
DECL(DIR *, fdopendir, int);
DECL(int, closedir, DIR *);
DECL(struct dirent *, readdir, DIR *);
DECL(struct dirent64 *, readdir64, DIR *);
DECL(ssize_t, readlink, const char *, char *, size_t);
DECL(char *, realpath, const char *, char *);
DECL(int, rename, const char *, const char *);
DECL(int, renameat, int, const char *, int, const char *);
DECL(int, renameat2, int, const char *, int, const char *, unsigned);
DECL(int, link, const char *, const char *);
DECL(int, linkat, int, const char *, int, const char *, int);
DECL(int, symlink, const char *, const char *);
DECL(int, symlinkat, const char *, int, const char *);
DECL(int, unlink, const char *);
DECL(int, unlinkat, int, const char *, int);
DECL(int, rmdir, const char *);
DECL(int, mkdir, const char *, mode_t);
DECL(int, mkdirat, int, const char *, mode_t);
DECL(int, mkfifo, const char *, mode_t);
DECL(int, ioctl, int, unsigned long, ...);
DECL(int, fcntl, int, int, ...);
DECL(int, fcntl64, int, int, ...);
DECL(int, utimensat, int, const char *, const struct timespec *, int);
DECL(int, futimens, int, const struct timespec *);
DECL(int, utimes, const char *, const struct timeval *);
DECL(int, lutimes, const char *, const struct timeval *);
DECL(int, chmod, const char *, mode_t);
DECL(int, fchmod, int, mode_t);
DECL(int, chown, const char *, uid_t, gid_t);
DECL(int, lchown, const char *, uid_t, gid_t);
DECL(int, fchown, int, uid_t, gid_t);
DECL(int, truncate, const char *, off_t);
DECL(int, truncate64, const char *, off_t);
DECL(int, ftruncate, int, off_t);
DECL(int, ftruncate64, int, off_t);
DECL(ssize_t, copy_file_range, int, off64_t *, int, off64_t *, size_t, unsigned);
DECL(ssize_t, sendfile, int, int, off_t *, size_t);
DECL(ssize_t, sendfile64, int, int, off_t *, size_t);
DECL(int, fsync, int);
DECL(int, fdatasync, int);
DECL(int, dup, int);
DECL(int, dup2, int, int);
DECL(int, dup3, int, int, int);
DECL(int, clock_gettime, clockid_t, struct timespec *);
DECL(int, gettimeofday, struct timeval *, void *);
DECL(time_t, time, time_t *);
DECL(ssize_t, getrandom, void *, size_t, unsigned);

#define LOAD(name) real_##name = dlsym(RTLD_NEXT, #name)

/* --------------------------------------------------------------- globals */

#define MAXFD 4096
#define MAXROOTS 16
#define MAXRULES 512
#define MAXLABELS 512
#define MAXDIRS 256
#define ORD_BUCKETS 8192

enum {
    A_NONE = 0,
    A_ERRNO,
    A_SHORT,
    A_SHORTRND,
    A_EINTR,
    A_DELAY,
    A_PAUSE,
    A_CRASHB,
    A_CRASHA,
    A_EOF,
    A_DTUNKNOWN /* readdir: deliver the entry with d_type = DT_UNKNOWN (file systems that do not fill it) */
};

struct rule {
    int id;
    char kind[24];
    char *path, *suffix, *path2, *prefix;
    long ord, mseq, seq;
    int proc; /* 0 main, 1 child, 2 any */
    int act;
    long arg;
    long count; /* remaining firings, -1 = infinite */
};

struct label {
    uint64_t real_ino;
    int has_ino, has_dev, has_bt, has_ct, has_at, has_mt;
    uint64_t ino, dev;
    int64_t bt, ct, at, mt;
};

struct fdent {
    char *path;
    int inworld;
    int writable;
};

struct ordent {
    struct ordent *next;
    char *key;
    long n;
};

static pthread_mutex_t mu = PTHREAD_MUTEX_INITIALIZER;
static int inited;
static __thread int in_seam;
static __thread int my_tid_idx = -1;
static int next_tid_idx;

static char *roots[MAXROOTS];
static int nroots;
static char *ro_roots[MAXROOTS];
static int nro;
static struct rule rules[MAXRULES];
static int nrules;
static struct label labels[MAXLABELS];
static int nlabels;
static struct fdent fdt[MAXFD];
static struct {
    DIR *d;
    char *path;
} dirs[MAXDIRS];
static struct ordent *ordtab[ORD_BUCKETS];

static int trace_fd = -1;
static int ctl_fd = -1;
static int is_child;
static int emulate_ficlone;
static long gseq, gmseq;
static int64_t now_ns;
static int have_now;
static uint64_t rng_state;
static int have_seed;
static volatile int stw;           /* stop-the-world flag */
static volatile pthread_t stw_owner;
static int open_inworld, max_open_inworld;
static const char *labels_path;

/* ------------------------------------------------------------- utilities */

static void raw_write_all(int fd, const char *buf, size_t len) {
    while (len > 0) {
        long r = RAW(SYS_write, fd, buf, len);
        if (r <= 0) {
            if (r < 0 && errno == EINTR) continue;
            return;
        }
        buf += r;
        len -= (size_t)r;
    }
}

static char *xstrdup(const char *s) {
    size_t n = strlen(s);
    char *r = malloc(n + 1);
    memcpy(r, s, n + 1);
    return r;
}

/* percent-encode everything outside [A-Za-z0-9/._-] */
static size_t pct_enc(char *out, size_t cap, const char *s) {
    static const char hex[] = "0123456789ABCDEF";
    size_t o = 0;
    if (!s) s = "";
    if (!*s && cap > 2) {
        out[o++] = '%';
        out[o++] = '~'; /* empty marker: "%~" */
    }
    for (; *s && o + 4 < cap; s++) {
        unsigned char c = (unsigned char)*s;
        if ((c >= 'A' && c <= 'Z') || (c >= 'a' && c <= 'z') || (c >= '0' && c <= '9') ||
            c == '/' || c == '.' || c == '_' || c == '-') {
            out[o++] = (char)c;
        } else {
            out[o++] = '%';
            out[o++] = hex[c >> 4];
            out[o++] = hex[c & 15];
        }
    }
    out[o] = 0;
    return o;
}

static int hexval(int c) {
    if (c >= '0' && c <= '9') return c - '0';
    if (c >= 'A' && c <= 'F') return c - 'A' + 10;
    if (c >= 'a' && c <= 'f') return c - 'a' + 10;
    return -1;
}

static char *pct_dec(const char *s) {
    size_t n = strlen(s);
    char *r = malloc(n + 1), *o = r;
    for (size_t i = 0; i < n; i++) {
        if (s[i] == '%' && i + 2 < n + 0 && hexval(s[i + 1]) >= 0 && hexval(s[i + 2]) >= 0) {
            *o++ = (char)(hexval(s[i + 1]) * 16 + hexval(s[i + 2]));
            i += 2;
        } else if (s[i] == '%' && s[i + 1] == '~') {
            i += 1;
        } else {
            *o++ = s[i];
        }
    }
    *o = 0;
    return r;
}

/* lexical normalisation of an absolute path: //, /./, /x/../ */
static void lex_norm(char *p) {
    char *segs[PATH_MAX / 2];
    int n = 0;
    char *s = p, *out = p;
    if (*s != '/') return;
    char *tok = s + 1;
    while (1) {
        char *e = strchr(tok, '/');
        if (e) *e = 0;
        if (*tok == 0 || strcmp(tok, ".") == 0) {
        } else if (strcmp(tok, "..") == 0) {
            if (n > 0) n--;
        } else {
            segs[n++] = tok;
        }
        if (!e) break;
        tok = e + 1;
    }
    char tmp[PATH_MAX];
    size_t o = 0;
    for (int i = 0; i < n; i++) {
        size_t l = strlen(segs[i]);
        if (o + l + 2 >= sizeof tmp) break;
        tmp[o++] = '/';
        memcpy(tmp + o, segs[i], l);
        o += l;
    }
    if (o == 0) tmp[o++] = '/';
    tmp[o] = 0;
    memcpy(out, tmp, o + 1);
}

static char *fd_path_alloc(int fd);

/* absolute, lexically normalised path of (dirfd, path); malloc'ed */
static char *abs_path(int dirfd, const char *path) {
    char buf[PATH_MAX * 2];
    /* an empty path names nothing (the kernel answers ENOENT; the AT_EMPTY_PATH callers resolve the descriptor
       themselves and never come here): it must not be taken for the directory it would be relative to */
    if (!path || !*path) return xstrdup("/.simfs-empty-path");
    if (path[0] == '/') {
        snprintf(buf, sizeof buf, "%s", path);
    } else if (dirfd == AT_FDCWD) {
        char cwd[PATH_MAX];
        long r = RAW(SYS_getcwd, cwd, sizeof cwd);
        if (r < 0) cwd[0] = 0;
        snprintf(buf, sizeof buf, "%s/%s", cwd, path);
    } else {
        char *d = fd_path_alloc(dirfd);
        snprintf(buf, sizeof buf, "%s/%s", d ? d : "", path);
        free(d);
    }
    lex_norm(buf);
    return xstrdup(buf);
}

static int has_prefix(const char *p, const char *root) {
    size_t n = strlen(root);
    return strncmp(p, root, n) == 0 && (p[n] == 0 || p[n] == '/' || (n > 0 && root[n - 1] == '/'));
}

static int in_world(const char *p) {
    if (!p) return 0;
    for (int i = 0; i < nroots; i++)
        if (has_prefix(p, roots[i])) return 1;
    return 0;
}

static int in_ro(const char *p) {
    if (!p) return 0;
    for (int i = 0; i < nro; i++)
        if (has_prefix(p, ro_roots[i])) return 1;
    return 0;
}

static char *fd_path_alloc(int fd) {
    if (fd >= 0 && fd < MAXFD && fdt[fd].path) return xstrdup(fdt[fd].path);
    char link[64], buf[PATH_MAX];
    snprintf(link, sizeof link, "/proc/self/fd/%d", fd);
    long r = RAW(SYS_readlink, link, buf, sizeof buf - 1);
    if (r <= 0) return NULL;
    buf[r] = 0;
    if (buf[0] != '/') return NULL; /* pipe:[..], socket:[..] */
    return xstrdup(buf);
}

static void split_list(const char *env, char **out, int *n) {
    *n = 0;
    if (!env || !*env) return;
    char *c = xstrdup(env), *save = NULL;
    for (char *t = strtok_r(c, ":", &save); t && *n < MAXROOTS; t = strtok_r(NULL, ":", &save))
        out[(*n)++] = xstrdup(t);
    free(c);
}

static char *slurp(const char *path) {
    int fd = (int)RAW(SYS_openat, AT_FDCWD, path, O_RDONLY | O_CLOEXEC, 0);
    if (fd < 0) return NULL;
    size_t cap = 65536, len = 0;
    char *buf = malloc(cap);
    for (;;) {
        if (len + 4096 > cap) buf = realloc(buf, cap *= 2);
        long r = RAW(SYS_read, fd, buf + len, cap - len - 1);
        if (r <= 0) break;
        len += (size_t)r;
    }
    RAW(SYS_close, fd);
    buf[len] = 0;
    return buf;
}

static uint64_t rng_next(void) {
    /* xorshift64* */
    uint64_t x = rng_state;
    x ^= x >> 12;
    x ^= x << 25;
    x ^= x >> 27;
    rng_state = x;
    return x * 0x2545F4914F6CDD1DULL;
}

/* ------------------------------------------------------------------ plan */

static int errno_by_name(const char *s) {
    static const struct {
        const char *n;
        int v;
    } t[] = {{"EIO", EIO},       {"ENOSPC", ENOSPC}, {"EXDEV", EXDEV},   {"EPERM", EPERM},
             {"EOPNOTSUPP", EOPNOTSUPP}, {"EACCES", EACCES}, {"ENOENT", ENOENT}, {"EAGAIN", EAGAIN},
             {"EINVAL", EINVAL}, {"EEXIST", EEXIST}, {"EINTR", EINTR},   {"EROFS", EROFS},
             {"ENOTDIR", ENOTDIR}, {"EISDIR", EISDIR}, {"EMFILE", EMFILE}, {"EBUSY", EBUSY},
             {"ENOTSUP", ENOTSUP}, {"ELOOP", ELOOP}, {"ENOLCK", ENOLCK}, {"EDQUOT", EDQUOT},
             {"ENOTEMPTY", ENOTEMPTY}, {"EFBIG", EFBIG}, {"EBADF", EBADF}, {"ENOMEM", ENOMEM},
             {"ETXTBSY", ETXTBSY}, {"ENAMETOOLONG", ENAMETOOLONG}, {"EMLINK", EMLINK}};
    for (size_t i = 0; i < sizeof t / sizeof t[0]; i++)
        if (strcmp(t[i].n, s) == 0) return t[i].v;
    return atoi(s);
}

static void parse_plan(const char *path) {
    char *txt = slurp(path);
    if (!txt) return;
    char *save = NULL;
    for (char *line = strtok_r(txt, "\n", &save); line; line = strtok_r(NULL, "\n", &save)) {
        if (line[0] != 'R' || nrules >= MAXRULES) continue;
        struct rule *r = &rules[nrules];
        memset(r, 0, sizeof *r);
        r->ord = r->mseq = r->seq = -1;
        r->count = 1;
        r->id = nrules;
        strcpy(r->kind, "*");
        char *s2 = NULL;
        for (char *tok = strtok_r(line + 1, " \t", &s2); tok; tok = strtok_r(NULL, " \t", &s2)) {
            char *eq = strchr(tok, '=');
            if (!eq) continue;
            *eq = 0;
            const char *k = tok, *v = eq + 1;
            if (!strcmp(k, "id")) r->id = atoi(v);
            else if (!strcmp(k, "kind")) snprintf(r->kind, sizeof r->kind, "%s", v);
            else if (!strcmp(k, "path")) r->path = pct_dec(v);
            else if (!strcmp(k, "suffix")) r->suffix = pct_dec(v);
            else if (!strcmp(k, "prefix")) r->prefix = pct_dec(v);
            else if (!strcmp(k, "path2")) r->path2 = pct_dec(v);
            else if (!strcmp(k, "ord")) r->ord = atol(v);
            else if (!strcmp(k, "mseq")) r->mseq = atol(v);
            else if (!strcmp(k, "seq")) r->seq = atol(v);
            else if (!strcmp(k, "proc")) r->proc = !strcmp(v, "child") ? 1 : !strcmp(v, "any") ? 2 : 0;
            else if (!strcmp(k, "count")) r->count = !strcmp(v, "inf") ? -1 : atol(v);
            else if (!strcmp(k, "act")) {
                char *c = strchr(v, ':');
                const char *a = c ? c + 1 : "";
                if (c) *c = 0;
                if (!strcmp(v, "errno")) { r->act = A_ERRNO; r->arg = errno_by_name(a); }
                else if (!strcmp(v, "short")) { r->act = A_SHORT; r->arg = atol(a); }
                else if (!strcmp(v, "shortrnd")) r->act = A_SHORTRND;
                else if (!strcmp(v, "eintr")) r->act = A_EINTR;
                else if (!strcmp(v, "eof")) r->act = A_EOF;
                else if (!strcmp(v, "delay")) { r->act = A_DELAY; r->arg = atol(a); }
                else if (!strcmp(v, "pause")) { r->act = A_PAUSE; r->arg = atol(a); }
                else if (!strcmp(v, "crashb")) r->act = A_CRASHB;
                else if (!strcmp(v, "crasha")) r->act = A_CRASHA;
                else if (!strcmp(v, "dtunknown")) r->act = A_DTUNKNOWN;
            }
        }
        if (r->act != A_NONE) nrules++;
    }
    free(txt);
}

static void load_labels(void) {
    nlabels = 0;
    if (!labels_path) return;
    char *txt = slurp(labels_path);
    if (!txt) return;
    char *save = NULL;
    for (char *line = strtok_r(txt, "\n", &save); line; line = strtok_r(NULL, "\n", &save)) {
        if (nlabels >= MAXLABELS) break;
        struct label *l = &labels[nlabels];
        memset(l, 0, sizeof *l);
        char *s2 = NULL;
        char *tok = strtok_r(line, " \t", &s2);
        if (!tok) continue;
        l->real_ino = strtoull(tok, NULL, 10);
        for (tok = strtok_r(NULL, " \t", &s2); tok; tok = strtok_r(NULL, " \t", &s2)) {
            char *eq = strchr(tok, '=');
            if (!eq) continue;
            *eq = 0;
            const char *v = eq + 1;
            if (!strcmp(tok, "ino")) { l->has_ino = 1; l->ino = strtoull(v, NULL, 10); }
            else if (!strcmp(tok, "dev")) { l->has_dev = 1; l->dev = strtoull(v, NULL, 10); }
            else if (!strcmp(tok, "btime")) { l->has_bt = 1; l->bt = strtoll(v, NULL, 10); }
            else if (!strcmp(tok, "ctime")) { l->has_ct = 1; l->ct = strtoll(v, NULL, 10); }
            else if (!strcmp(tok, "atime")) { l->has_at = 1; l->at = strtoll(v, NULL, 10); }
            else if (!strcmp(tok, "mtime")) { l->has_mt = 1; l->mt = strtoll(v, NULL, 10); }
        }
        nlabels++;
    }
    free(txt);
}

static struct label *find_label(uint64_t ino) {
    for (int i = 0; i < nlabels; i++)
        if (labels[i].real_ino == ino) return &labels[i];
    return NULL;
}

/* ------------------------------------------------------------------ init */

static void do_init(void) {
    real_syscall = dlsym(RTLD_NEXT, "syscall");
    LOAD(open); LOAD(open64); LOAD(openat); LOAD(openat64); LOAD(creat); LOAD(creat64);
    LOAD(close); LOAD(read); LOAD(write); LOAD(pread64); LOAD(pwrite64); LOAD(readv); LOAD(writev);
    LOAD(stat); LOAD(stat64); LOAD(lstat); LOAD(lstat64); LOAD(fstat); LOAD(fstat64);
    LOAD(fstatat); LOAD(fstatat64); LOAD(statx);
    LOAD(opendir); LOAD(fdopendir); LOAD(closedir); LOAD(readdir); LOAD(readdir64);
    LOAD(readlink); LOAD(realpath);
    LOAD(rename); LOAD(renameat); LOAD(renameat2); LOAD(link); LOAD(linkat); LOAD(symlink);
    LOAD(symlinkat); LOAD(unlink); LOAD(unlinkat); LOAD(rmdir); LOAD(mkdir); LOAD(mkdirat);
    LOAD(mkfifo); LOAD(ioctl); LOAD(fcntl); LOAD(fcntl64);
    LOAD(utimensat); LOAD(futimens); LOAD(utimes); LOAD(lutimes);
    LOAD(chmod); LOAD(fchmod); LOAD(chown); LOAD(lchown); LOAD(fchown);
    LOAD(truncate); LOAD(truncate64); LOAD(ftruncate); LOAD(ftruncate64);
    LOAD(copy_file_range); LOAD(sendfile); LOAD(sendfile64); LOAD(fsync); LOAD(fdatasync);
    LOAD(dup); LOAD(dup2); LOAD(dup3);
    LOAD(clock_gettime); LOAD(gettimeofday); LOAD(time); LOAD(getrandom);
    if (!real_fcntl64) real_fcntl64 = real_fcntl;

    in_seam++;
    split_list(getenv("SIMFS_ROOTS"), roots, &nroots);
    split_list(getenv("SIMFS_RO"), ro_roots, &nro);
    const char *s;
    if ((s = getenv("SIMFS_DEPTH"))) is_child = 1;
    setenv("SIMFS_DEPTH", "1", 1);
    if ((s = getenv("SIMFS_NOW_NS")) && *s) {
        now_ns = strtoll(s, NULL, 10);
        have_now = 1;
    }
    if ((s = getenv("SIMFS_SEED")) && *s) {
        rng_state = strtoull(s, NULL, 10) * 0x9E3779B97F4A7C15ULL + 0x1234567ULL + (uint64_t)is_child;
        if (!rng_state) rng_state = 88172645463325252ULL;
        for (int i = 0; i < 8; i++) rng_next();
        have_seed = 1;
    }
    if ((s = getenv("SIMFS_FICLONE")) && *s == '1') emulate_ficlone = 1;
    if ((s = getenv("SIMFS_CTL_FD")) && *s) ctl_fd = atoi(s);
    if ((s = getenv("SIMFS_TRACE")) && *s) {
        int fd = (int)RAW(SYS_openat, AT_FDCWD, s, O_WRONLY | O_APPEND | O_CREAT | O_CLOEXEC, 0644);
        if (fd >= 0) {
            int hi = (int)RAW(SYS_fcntl, fd, F_DUPFD_CLOEXEC, 1000);
            if (hi >= 0) {
                RAW(SYS_close, fd);
                fd = hi;
            }
            trace_fd = fd;
        }
    }
    if ((s = getenv("SIMFS_PLAN")) && *s) parse_plan(s);
    labels_path = getenv("SIMFS_LABELS");
    if (labels_path && !*labels_path) labels_path = NULL;
    if (labels_path) labels_path = xstrdup(labels_path);
    load_labels();
    if (trace_fd >= 0) {
        char line[128];
        int n = snprintf(line, sizeof line, "S %d %d rules=%d\n", (int)RAW(SYS_getpid), is_child, nrules);
        raw_write_all(trace_fd, line, (size_t)n);
    }
    in_seam--;
}

static pthread_once_t once = PTHREAD_ONCE_INIT;
static inline void ensure_init(void) {
    if (__builtin_expect(!inited, 0)) {
        pthread_once(&once, do_init);
        inited = 1;
    }
}

__attribute__((constructor)) static void ctor(void) { ensure_init(); }

/* ----------------------------------------------------------------- events */

struct ev {
    const char *kind;
    char *path;  /* subject, malloc'ed, may be NULL */
    char *path2; /* malloc'ed, may be NULL */
    int mutating;
    int active;  /* in world (logged, rules apply) */
    long seq, mseq, ord;
    int act;
    long arg;
    int rule_id;
};

static int tid_idx(void) {
    if (my_tid_idx < 0) my_tid_idx = __sync_fetch_and_add(&next_tid_idx, 1);
    return my_tid_idx;
}

static long next_ord(const char *kind, const char *path) {
    char key[PATH_MAX + 32];
    snprintf(key, sizeof key, "%s|%s", kind, path ? path : "");
    uint64_t h = 1469598103934665603ULL;
    for (const char *c = key; *c; c++) h = (h ^ (unsigned char)*c) * 1099511628211ULL;
    struct ordent **b = &ordtab[h % ORD_BUCKETS];
    for (struct ordent *e = *b; e; e = e->next)
        if (!strcmp(e->key, key)) return e->n++;
    struct ordent *e = malloc(sizeof *e);
    e->key = xstrdup(key);
    e->n = 1;
    e->next = *b;
    *b = e;
    return 0;
}

static int ends_with(const char *s, const char *suf) {
    size_t a = strlen(s), b = strlen(suf);
    return a >= b && memcmp(s + a - b, suf, b) == 0;
}

static void gate(void) {
    while (stw && !pthread_equal(stw_owner, pthread_self())) {
        struct timespec ts = {0, 200000};
        RAW(SYS_nanosleep, &ts, NULL);
    }
}

static void trace_line(const struct ev *e, long ret, int err, const char *extra) {
    if (trace_fd < 0) return;
    char p1[PATH_MAX * 3 + 8], p2[PATH_MAX * 3 + 8];
    pct_enc(p1, sizeof p1, e->path ? e->path : "");
    pct_enc(p2, sizeof p2, e->path2 ? e->path2 : "");
    static const char *actn[] = {"-", "errno", "short", "shortrnd", "eintr", "delay",
                                 "pause", "crashb", "crasha", "eof", "dtunknown"};
    char *line = malloc(sizeof p1 + sizeof p2 + 256);
    int n = sprintf(line, "E %ld %ld %d %d %s %ld %ld %d %s:%ld:%d %s %s %s\n", e->seq, e->mseq,
                    is_child, tid_idx(), e->kind, e->ord, ret, err, actn[e->act], e->arg,
                    e->rule_id, p1, p2, extra ? extra : "-");
    raw_write_all(trace_fd, line, (size_t)n);
    free(line);
}

static void do_pause(struct ev *e) {
    /* stop the world, tell the driver, wait for GO [now_ns] */
    stw_owner = pthread_self();
    __sync_synchronize();
    stw = 1;
    char msg[64];
    int n = snprintf(msg, sizeof msg, "HIT %ld\n", e->arg);
    if (trace_fd >= 0) {
        char l[64];
        int m = snprintf(l, sizeof l, "P %ld %ld\n", e->seq, e->arg);
        raw_write_all(trace_fd, l, (size_t)m);
    }
    if (ctl_fd >= 0) {
        raw_write_all(ctl_fd, msg, (size_t)n);
        char buf[128];
        size_t len = 0;
        while (len < sizeof buf - 1) {
            long r = RAW(SYS_read, ctl_fd, buf + len, 1);
            if (r <= 0) {
                if (r < 0 && errno == EINTR) continue;
                break;
            }
            if (buf[len] == '\n') break;
            len++;
        }
        buf[len] = 0;
        if (!strncmp(buf, "GO ", 3) && buf[3]) {
            now_ns = strtoll(buf + 3, NULL, 10);
            have_now = 1;
        }
        pthread_mutex_lock(&mu);
        load_labels();
        pthread_mutex_unlock(&mu);
    }
    stw = 0;
    __sync_synchronize();
}

/* Called before the real call.  Takes ownership of path/path2. */
/* second name under which the NEXT event of this thread can be matched by a rule ("noatime": an open that asks for
   O_NOATIME - the kernel refuses it with EPERM for files of another owner, which a rule of that kind models) */
static __thread const char *ev_alias;

static void ev_begin(struct ev *e, const char *kind, int mutating, char *path, char *path2,
                     int force_active) {
    memset(e, 0, sizeof *e);
    e->kind = kind;
    e->path = path;
    e->path2 = path2;
    e->mutating = mutating;
    e->rule_id = -1;
    e->mseq = -1;
    e->active = force_active || in_world(path) || in_world(path2);
    if (!e->active) return;
    gate();
    pthread_mutex_lock(&mu);
    e->seq = gseq++;
    if (mutating) e->mseq = gmseq++;
    e->ord = next_ord(kind, path);
    for (int i = 0; i < nrules; i++) {
        struct rule *r = &rules[i];
        if (r->count == 0) continue;
        if (r->proc != 2 && r->proc != is_child) continue;
        if (strcmp(r->kind, "*") && strcmp(r->kind, kind)) {
            /* "mut" matches any mutating call; an alias names a sub-class of the call (open with O_NOATIME) */
            if (!(mutating && !strcmp(r->kind, "mut")) && !(ev_alias && !strcmp(r->kind, ev_alias))) continue;
        }
        if (r->path && (!path || strcmp(r->path, path))) continue;
        if (r->suffix && (!path || !ends_with(path, r->suffix))) continue;
        if (r->prefix && (!path || !has_prefix(path, r->prefix))) continue;
        if (r->path2 && (!path2 || strcmp(r->path2, path2))) continue;
        if (r->ord >= 0 && r->ord != e->ord) continue;
        if (r->mseq >= 0 && r->mseq != e->mseq) continue;
        if (r->seq >= 0 && r->seq != e->seq) continue;
        if (r->count > 0) r->count--;
        e->act = r->act;
        e->arg = r->arg;
        e->rule_id = r->id;
        break;
    }
    if (mutating && (in_ro(path) || (path2 && in_ro(path2) && (!strcmp(kind, "rename") || !strcmp(kind, "link"))))) {
        if (trace_fd >= 0) {
            char p1[PATH_MAX * 3 + 8];
            pct_enc(p1, sizeof p1, in_ro(path) ? path : path2);
            char *l = malloc(sizeof p1 + 64);
            int n = sprintf(l, "V ro %s %d %s\n", kind, is_child, p1);
            raw_write_all(trace_fd, l, (size_t)n);
            free(l);
        }
    }
    pthread_mutex_unlock(&mu);
    if (e->act == A_DELAY) {
        struct timespec ts = {e->arg / 1000000, (e->arg % 1000000) * 1000};
        RAW(SYS_nanosleep, &ts, NULL);
    } else if (e->act == A_PAUSE) {
        do_pause(e);
    } else if (e->act == A_CRASHB) {
        trace_line(e, 0, 0, "crash");
        RAW(SYS_exit_group, 137);
    }
}

static void ev_end(struct ev *e, long ret, int err, const char *extra) {
    if (e->active) {
        trace_line(e, ret, ret < 0 ? err : 0, extra);
        if (e->act == A_CRASHA) RAW(SYS_exit_group, 137);
    }
    free(e->path);
    free(e->path2);
    errno = err;
}

/* returns 1 when the call must fail with errno set instead of being made */
static int ev_fail(struct ev *e) {
    if (!e->active) return 0;
    if (e->act == A_ERRNO) {
        errno = (int)e->arg;
        return 1;
    }
    if (e->act == A_EINTR) {
        errno = EINTR;
        return 1;
    }
    return 0;
}

/* ------------------------------------------------------------- fd tracking */

static void fd_set_path(int fd, const char *path, int writable) {
    if (fd < 0 || fd >= MAXFD) return;
    pthread_mutex_lock(&mu);
    free(fdt[fd].path);
    fdt[fd].path = path ? xstrdup(path) : NULL;
    fdt[fd].inworld = in_world(path);
    fdt[fd].writable = writable;
    if (fdt[fd].inworld) {
        open_inworld++;
        if (open_inworld > max_open_inworld) {
            max_open_inworld = open_inworld;
            if (trace_fd >= 0) {
                char l[64];
                int n = snprintf(l, sizeof l, "M maxfd %d\n", max_open_inworld);
                raw_write_all(trace_fd, l, (size_t)n);
            }
        }
    }
    pthread_mutex_unlock(&mu);
}

static void fd_clear(int fd) {
    if (fd < 0 || fd >= MAXFD) return;
    pthread_mutex_lock(&mu);
    if (fdt[fd].path) {
        if (fdt[fd].inworld) open_inworld--;
        free(fdt[fd].path);
        fdt[fd].path = NULL;
        fdt[fd].inworld = 0;
    }
    pthread_mutex_unlock(&mu);
}

static void fd_copy(int from, int to) {
    if (from < 0 || from >= MAXFD || to < 0 || to >= MAXFD) return;
    char *p = NULL;
    int w = 0;
    pthread_mutex_lock(&mu);
    if (fdt[from].path) {
        p = xstrdup(fdt[from].path);
        w = fdt[from].writable;
    }
    pthread_mutex_unlock(&mu);
    fd_clear(to);
    if (p) fd_set_path(to, p, w);
    free(p);
}

/* path of an fd for event purposes: table, else stdin/stdout names, else NULL */
static char *fd_event_path(int fd, int *active) {
    *active = 0;
    if (fd >= 0 && fd < MAXFD && fdt[fd].path) {
        *active = fdt[fd].inworld;
        return xstrdup(fdt[fd].path);
    }
    return NULL;
}

/* --------------------------------------------------------------- open family */

static int is_write_open(int flags) {
    int acc = flags & O_ACCMODE;
    return acc == O_WRONLY || acc == O_RDWR || (flags & (O_CREAT | O_TRUNC | O_APPEND)) != 0;
}

static int open_common(int dirfd, const char *path, int flags, mode_t mode, int which) {
    ensure_init();
    if (in_seam) {
        return (int)RAW(SYS_openat, dirfd, path, flags, mode);
    }
    in_seam++;
    char *ap = abs_path(dirfd, path);
    char *ap2 = xstrdup(ap);
    int w = is_write_open(flags);
    struct ev e;
    char extra[32];
    snprintf(extra, sizeof extra, "fl=%x", flags);
    ev_alias = (flags & O_NOATIME) ? "noatime" : NULL;
    ev_begin(&e, w ? "openw" : "open", w, ap, NULL, 0);
    ev_alias = NULL;
    int ret, err;
    if (ev_fail(&e)) {
        ret = -1;
        err = errno;
    } else {
        (void)which;
        ret = (int)RAW(SYS_openat, dirfd, path, flags, mode);
        err = errno;
        if (ret >= 0) fd_set_path(ret, ap2, w);
    }
    free(ap2);
    ev_end(&e, ret, err, extra);
    in_seam--;
    return ret;
}

#define OPEN_MODE()                                         \
    mode_t mode = 0;                                        \
    if (flags & (O_CREAT | __O_TMPFILE)) {                  \
        va_list ap;                                         \
        va_start(ap, flags);                                \
        mode = va_arg(ap, mode_t);                          \
        va_end(ap);                                         \
    }

int open(const char *path, int flags, ...) {
    OPEN_MODE();
    return open_common(AT_FDCWD, path, flags, mode, 0);
}
int open64(const char *path, int flags, ...) {
    OPEN_MODE();
    return open_common(AT_FDCWD, path, flags | O_LARGEFILE, mode, 1);
}
int openat(int dirfd, const char *path, int flags, ...) {
    OPEN_MODE();
    return open_common(dirfd, path, flags, mode, 2);
}
int openat64(int dirfd, const char *path, int flags, ...) {
    OPEN_MODE();
    return open_common(dirfd, path, flags | O_LARGEFILE, mode, 3);
}
int creat(const char *path, mode_t mode) {
    return open_common(AT_FDCWD, path, O_CREAT | O_WRONLY | O_TRUNC, mode, 4);
}
int creat64(const char *path, mode_t mode) {
    return open_common(AT_FDCWD, path, O_CREAT | O_WRONLY | O_TRUNC | O_LARGEFILE, mode, 5);
}

int close(int fd) {
    ensure_init();
    if (fd == trace_fd && fd >= 0) {
        /* somebody closing all fds: keep the trace alive */
        return 0;
    }
    if (!in_seam) fd_clear(fd);
    return (int)RAW(SYS_close, fd);
}

int dup(int fd) {
    ensure_init();
    int r = real_dup(fd);
    if (r >= 0 && !in_seam) fd_copy(fd, r);
    return r;
}
int dup2(int a, int b) {
    ensure_init();
    int r = real_dup2(a, b);
    if (r >= 0 && a != b && !in_seam) fd_copy(a, r);
    return r;
}
int dup3(int a, int b, int fl) {
    ensure_init();
    int r = real_dup3(a, b, fl);
    if (r >= 0 && !in_seam) fd_copy(a, r);
    return r;
}

/* ------------------------------------------------------------ read / write */

static size_t short_len(struct ev *e, size_t n) {
    if (!e->active || n <= 1) return n;
    if (e->act == A_SHORT) {
        size_t k = (size_t)e->arg;
        if (k < 1) k = 1;
        return k < n ? k : n;
    }
    if (e->act == A_SHORTRND) {
        pthread_mutex_lock(&mu);
        uint64_t r = rng_next();
        pthread_mutex_unlock(&mu);
        switch (r & 3) {
        case 0: return 1;
        case 1: return n < 7 ? n : 7;
        case 2: return n / 2 ? n / 2 : 1;
        default: return n - 1;
        }
    }
    return n;
}

static const char *std_name(int fd) { return fd == 0 ? "<stdin>" : fd == 1 ? "<stdout>" : NULL; }

static ssize_t rw_common(int is_write, const char *kind, int fd, void *buf, size_t n, off_t off,
                         int positional) {
    ensure_init();
    long nr = is_write ? (positional ? SYS_pwrite64 : SYS_write) : (positional ? SYS_pread64 : SYS_read);
    if (in_seam || fd == trace_fd || fd == ctl_fd) {
        return positional ? RAW(nr, fd, buf, n, off) : RAW(nr, fd, buf, n);
    }
    int active = 0;
    char *p = fd_event_path(fd, &active);
    int force = 0;
    if (!p && std_name(fd) && !is_child && nroots > 0 && ((fd == 0 && !is_write) || (fd == 1 && is_write))) {
        p = xstrdup(std_name(fd));
        force = 1;
    }
    if (!active && !force) {
        free(p);
        return positional ? RAW(nr, fd, buf, n, off) : RAW(nr, fd, buf, n);
    }
    in_seam++;
    struct ev e;
    ev_begin(&e, kind, is_write && !force, p, NULL, force);
    ssize_t ret;
    int err;
    if (ev_fail(&e)) {
        ret = -1;
        err = errno;
    } else if (e.act == A_EOF && !is_write) {
        ret = 0;
        err = 0;
    } else {
        size_t k = short_len(&e, n);
        ret = positional ? RAW(nr, fd, buf, k, off) : RAW(nr, fd, buf, k);
        err = errno;
    }
    char extra[48];
    snprintf(extra, sizeof extra, "n=%zu", n);
    ev_end(&e, ret, err, extra);
    in_seam--;
    return ret;
}

ssize_t read(int fd, void *buf, size_t n) { return rw_common(0, "read", fd, buf, n, 0, 0); }
ssize_t write(int fd, const void *buf, size_t n) {
    return rw_common(1, "write", fd, (void *)buf, n, 0, 0);
}
ssize_t pread64(int fd, void *buf, size_t n, off_t off) {
    return rw_common(0, "pread", fd, buf, n, off, 1);
}
ssize_t pread(int fd, void *buf, size_t n, off_t off) {
    return rw_common(0, "pread", fd, buf, n, off, 1);
}
ssize_t pwrite64(int fd, const void *buf, size_t n, off_t off) {
    return rw_common(1, "pwrite", fd, (void *)buf, n, off, 1);
}
ssize_t pwrite(int fd, const void *buf, size_t n, off_t off) {
    return rw_common(1, "pwrite", fd, (void *)buf, n, off, 1);
}

ssize_t readv(int fd, const struct iovec *iov, int cnt) {
    ensure_init();
    int active = 0;
    if (!in_seam && cnt > 0) {
        char *p = fd_event_path(fd, &active);
        free(p);
        if (active || (fd == 0 && !is_child && nroots > 0))
            return rw_common(0, "read", fd, iov[0].iov_base, iov[0].iov_len, 0, 0);
    }
    return RAW(SYS_readv, fd, iov, cnt);
}

ssize_t writev(int fd, const struct iovec *iov, int cnt) {
    ensure_init();
    int active = 0;
    if (!in_seam && cnt > 0) {
        char *p = fd_event_path(fd, &active);
        free(p);
        if (active || (fd == 1 && !is_child && nroots > 0)) {
            /* deliver the first non-empty buffer only: a legal short write */
            for (int i = 0; i < cnt; i++)
                if (iov[i].iov_len > 0)
                    return rw_common(1, "write", fd, iov[i].iov_base, iov[i].iov_len, 0, 0);
            return 0;
        }
    }
    return RAW(SYS_writev, fd, iov, cnt);
}

/* ----------------------------------------------------------------- stat family */

static void relabel_stat(struct stat *st) {
    if (!nlabels) return;
    struct label *l = find_label(st->st_ino);
    if (!l) return;
    if (l->has_ino) st->st_ino = l->ino;
    if (l->has_dev) st->st_dev = l->dev;
    if (l->has_ct) { st->st_ctim.tv_sec = l->ct / 1000000000LL; st->st_ctim.tv_nsec = l->ct % 1000000000LL; }
    if (l->has_at) { st->st_atim.tv_sec = l->at / 1000000000LL; st->st_atim.tv_nsec = l->at % 1000000000LL; }
    if (l->has_mt) { st->st_mtim.tv_sec = l->mt / 1000000000LL; st->st_mtim.tv_nsec = l->mt % 1000000000LL; }
}

static void relabel_statx(struct statx *sx) {
    if (!nlabels) return;
    struct label *l = find_label(sx->stx_ino);
    if (!l) return;
    if (l->has_ino) sx->stx_ino = l->ino;
    if (l->has_dev) { sx->stx_dev_major = (uint32_t)(l->dev >> 8); sx->stx_dev_minor = (uint32_t)(l->dev & 0xff); }
    if (l->has_bt) { sx->stx_btime.tv_sec = l->bt / 1000000000LL; sx->stx_btime.tv_nsec = (uint32_t)(l->bt % 1000000000LL); sx->stx_mask |= STATX_BTIME; }
    if (l->has_ct) { sx->stx_ctime.tv_sec = l->ct / 1000000000LL; sx->stx_ctime.tv_nsec = (uint32_t)(l->ct % 1000000000LL); }
    if (l->has_at) { sx->stx_atime.tv_sec = l->at / 1000000000LL; sx->stx_atime.tv_nsec = (uint32_t)(l->at % 1000000000LL); }
    if (l->has_mt) { sx->stx_mtime.tv_sec = l->mt / 1000000000LL; sx->stx_mtime.tv_nsec = (uint32_t)(l->mt % 1000000000LL); }
}

static int stat_common(int dirfd, const char *path, struct stat *st, int flags, const char *kind) {
    ensure_init();
    if (in_seam) return (int)RAW(SYS_newfstatat, dirfd, path, st, flags);
    in_seam++;
    char *ap;
    int byfd = (flags & AT_EMPTY_PATH) && (!path || !*path);
    if (byfd) {
        int a;
        ap = fd_event_path(dirfd, &a);
    } else {
        ap = abs_path(dirfd, path);
    }
    struct ev e;
    ev_begin(&e, byfd ? "fstat" : kind, 0, ap, NULL, 0);
    int ret, err;
    if (ev_fail(&e)) {
        ret = -1;
        err = errno;
    } else {
        ret = (int)RAW(SYS_newfstatat, dirfd, path ? path : "", st, flags);
        err = errno;
        if (ret == 0 && e.active) relabel_stat(st);
    }
    ev_end(&e, ret, err, NULL);
    in_seam--;
    return ret;
}

int stat(const char *p, struct stat *st) { return stat_common(AT_FDCWD, p, st, 0, "stat"); }
int stat64(const char *p, struct stat64 *st) { return stat_common(AT_FDCWD, p, (struct stat *)st, 0, "stat"); }
int lstat(const char *p, struct stat *st) { return stat_common(AT_FDCWD, p, st, AT_SYMLINK_NOFOLLOW, "lstat"); }
int lstat64(const char *p, struct stat64 *st) { return stat_common(AT_FDCWD, p, (struct stat *)st, AT_SYMLINK_NOFOLLOW, "lstat"); }
int fstat(int fd, struct stat *st) { return stat_common(fd, "", st, AT_EMPTY_PATH, "fstat"); }
int fstat64(int fd, struct stat64 *st) { return stat_common(fd, "", (struct stat *)st, AT_EMPTY_PATH, "fstat"); }
int fstatat(int d, const char *p, struct stat *st, int fl) {
    return stat_common(d, p, st, fl, (fl & AT_SYMLINK_NOFOLLOW) ? "lstat" : "stat");
}
int fstatat64(int d, const char *p, struct stat64 *st, int fl) {
    return stat_common(d, p, (struct stat *)st, fl, (fl & AT_SYMLINK_NOFOLLOW) ? "lstat" : "stat");
}

int statx(int dirfd, const char *path, int flags, unsigned mask, struct statx *sx) {
    ensure_init();
    if (in_seam) return (int)RAW(SYS_statx, dirfd, path, flags, mask, sx);
    in_seam++;
    char *ap;
    int byfd = (flags & AT_EMPTY_PATH) && (!path || !*path);
    if (byfd) {
        int a;
        ap = fd_event_path(dirfd, &a);
    } else {
        ap = abs_path(dirfd, path);
    }
    struct ev e;
    ev_begin(&e, byfd ? "fstat" : ((flags & AT_SYMLINK_NOFOLLOW) ? "lstat" : "stat"), 0, ap, NULL, 0);
    int ret, err;
    if (ev_fail(&e)) {
        ret = -1;
        err = errno;
    } else {
        ret = (int)RAW(SYS_statx, dirfd, path, flags, mask, sx);
        err = errno;
        if (ret == 0 && e.active) relabel_statx(sx);
    }
    ev_end(&e, ret, err, NULL);
    in_seam--;
    return ret;
}

/* --------------------------------------------------------------- directories */

static void dir_set(DIR *d, const char *path) {
    pthread_mutex_lock(&mu);
    for (int i = 0; i < MAXDIRS; i++)
        if (!dirs[i].d) {
            dirs[i].d = d;
            dirs[i].path = xstrdup(path);
            break;
        }
    pthread_mutex_unlock(&mu);
}

static char *dir_get(DIR *d) {
    char *r = NULL;
    pthread_mutex_lock(&mu);
    for (int i = 0; i < MAXDIRS; i++)
        if (dirs[i].d == d) {
            r = xstrdup(dirs[i].path);
            break;
        }
    pthread_mutex_unlock(&mu);
    return r;
}

static void dir_del(DIR *d) {
    pthread_mutex_lock(&mu);
    for (int i = 0; i < MAXDIRS; i++)
        if (dirs[i].d == d) {
            dirs[i].d = NULL;
            free(dirs[i].path);
            dirs[i].path = NULL;
            break;
        }
    pthread_mutex_unlock(&mu);
}

DIR *opendir(const char *path) {
    ensure_init();
    if (in_seam) return real_opendir(path);
    in_seam++;
    char *ap = abs_path(AT_FDCWD, path);
    char *ap2 = xstrdup(ap);
    struct ev e;
    ev_begin(&e, "opendir", 0, ap, NULL, 0);
    DIR *d = NULL;
    int err;
    if (ev_fail(&e)) {
        err = errno;
    } else {
        d = real_opendir(path);
        err = errno;
        if (d && e.active) dir_set(d, ap2);
    }
    free(ap2);
    ev_end(&e, d ? 0 : -1, err, NULL);
    in_seam--;
    return d;
}

DIR *fdopendir(int fd) {
    ensure_init();
    DIR *d = real_fdopendir(fd);
    if (d && !in_seam) {
        in_seam++;
        int a;
        char *p = fd_event_path(fd, &a);
        if (p && a) dir_set(d, p);
        free(p);
        in_seam--;
    }
    return d;
}

int closedir(DIR *d) {
    ensure_init();
    if (!in_seam) {
        dir_del(d);
        int fd = dirfd(d);
        fd_clear(fd);
    }
    return real_closedir(d);
}

struct dirent64 *readdir64(DIR *d) {
    ensure_init();
    if (in_seam) return real_readdir64(d);
    char *p = dir_get(d);
    if (!p) return real_readdir64(d);
    in_seam++;
    struct ev e;
    ev_begin(&e, "readdir", 0, p, NULL, 0);
    struct dirent64 *r = NULL;
    int err;
    if (ev_fail(&e)) {
        err = errno;
    } else if (e.act == A_EOF) {
        err = errno;
    } else {
        errno = 0;
        r = real_readdir64(d);
        err = errno;
        if (r && e.act == A_DTUNKNOWN) r->d_type = DT_UNKNOWN;
    }
    char extra[300];
    char enc[280];
    if (r) {
        char nm[90];
        snprintf(nm, sizeof nm, "%.80s", r->d_name);
        pct_enc(enc, sizeof enc, nm);
        snprintf(extra, sizeof extra, "name=%s", enc);
    } else
        snprintf(extra, sizeof extra, "end");
    ev_end(&e, r ? 0 : (err ? -1 : 0), err, extra);
    in_seam--;
    return r;
}

struct dirent *readdir(DIR *d) { return (struct dirent *)readdir64(d); }

ssize_t readlink(const char *path, char *buf, size_t n) {
    ensure_init();
    if (in_seam) return RAW(SYS_readlinkat, AT_FDCWD, path, buf, n);
    in_seam++;
    struct ev e;
    ev_begin(&e, "readlink", 0, abs_path(AT_FDCWD, path), NULL, 0);
    ssize_t ret;
    int err;
    if (ev_fail(&e)) {
        ret = -1;
        err = errno;
    } else {
        ret = RAW(SYS_readlinkat, AT_FDCWD, path, buf, n);
        err = errno;
    }
    ev_end(&e, ret, err, NULL);
    in_seam--;
    return ret;
}

char *realpath(const char *path, char *resolved) {
    ensure_init();
    if (in_seam) return real_realpath(path, resolved);
    in_seam++;
    struct ev e;
    ev_begin(&e, "realpath", 0, abs_path(AT_FDCWD, path), NULL, 0);
    char *ret = NULL;
    int err;
    if (ev_fail(&e)) {
        err = errno;
    } else {
        ret = real_realpath(path, resolved);
        err = errno;
    }
    ev_end(&e, ret ? 0 : -1, err, NULL);
    in_seam--;
    return ret;
}

/* ----------------------------------------------------------- mutating calls */

#define MUT2(KIND, P1, P2, CALL)                                 \
    ensure_init();                                               \
    if (in_seam) return (int)(CALL);                             \
    in_seam++;                                                   \
    struct ev e;                                                 \
    ev_begin(&e, KIND, 1, P1, P2, 0);                            \
    int ret, err;                                                \
    if (ev_fail(&e)) {                                           \
        ret = -1;                                                \
        err = errno;                                             \
    } else {                                                     \
        ret = (int)(CALL);                                       \
        err = errno;                                             \
    }                                                            \
    ev_end(&e, ret, err, NULL);                                  \
    in_seam--;                                                   \
    return ret;

int rename(const char *a, const char *b) {
    MUT2("rename", abs_path(AT_FDCWD, a), abs_path(AT_FDCWD, b),
         RAW(SYS_renameat2, AT_FDCWD, a, AT_FDCWD, b, 0))
}
int renameat(int da, const char *a, int db, const char *b) {
    MUT2("rename", abs_path(da, a), abs_path(db, b), RAW(SYS_renameat2, da, a, db, b, 0))
}
int renameat2(int da, const char *a, int db, const char *b, unsigned fl) {
    MUT2("rename", abs_path(da, a), abs_path(db, b), RAW(SYS_renameat2, da, a, db, b, fl))
}
int link(const char *a, const char *b) {
    MUT2("link", abs_path(AT_FDCWD, b), abs_path(AT_FDCWD, a), RAW(SYS_linkat, AT_FDCWD, a, AT_FDCWD, b, 0))
}
int linkat(int da, const char *a, int db, const char *b, int fl) {
    MUT2("link", abs_path(db, b), abs_path(da, a), RAW(SYS_linkat, da, a, db, b, fl))
}
int symlink(const char *target, const char *lp) {
    MUT2("symlink", abs_path(AT_FDCWD, lp), xstrdup(target), RAW(SYS_symlinkat, target, AT_FDCWD, lp))
}
int symlinkat(const char *target, int d, const char *lp) {
    MUT2("symlink", abs_path(d, lp), xstrdup(target), RAW(SYS_symlinkat, target, d, lp))
}
int unlink(const char *p) { MUT2("unlink", abs_path(AT_FDCWD, p), NULL, RAW(SYS_unlinkat, AT_FDCWD, p, 0)) }
int unlinkat(int d, const char *p, int fl) {
    MUT2((fl & AT_REMOVEDIR) ? "rmdir" : "unlink", abs_path(d, p), NULL, RAW(SYS_unlinkat, d, p, fl))
}
int rmdir(const char *p) { MUT2("rmdir", abs_path(AT_FDCWD, p), NULL, RAW(SYS_unlinkat, AT_FDCWD, p, AT_REMOVEDIR)) }
int mkdir(const char *p, mode_t m) { MUT2("mkdir", abs_path(AT_FDCWD, p), NULL, RAW(SYS_mkdirat, AT_FDCWD, p, m)) }
int mkdirat(int d, const char *p, mode_t m) { MUT2("mkdir", abs_path(d, p), NULL, RAW(SYS_mkdirat, d, p, m)) }
int mkfifo(const char *p, mode_t m) { MUT2("mkfifo", abs_path(AT_FDCWD, p), NULL, RAW(SYS_mknodat, AT_FDCWD, p, m | S_IFIFO, 0)) }
int chmod(const char *p, mode_t m) { MUT2("chmod", abs_path(AT_FDCWD, p), NULL, RAW(SYS_fchmodat, AT_FDCWD, p, m)) }
int chown(const char *p, uid_t u, gid_t g) { MUT2("chown", abs_path(AT_FDCWD, p), NULL, RAW(SYS_fchownat, AT_FDCWD, p, u, g, 0)) }
int lchown(const char *p, uid_t u, gid_t g) {
    MUT2("chown", abs_path(AT_FDCWD, p), NULL, RAW(SYS_fchownat, AT_FDCWD, p, u, g, AT_SYMLINK_NOFOLLOW))
}
int truncate(const char *p, off_t l) { MUT2("truncate", abs_path(AT_FDCWD, p), NULL, RAW(SYS_truncate, p, l)) }
int truncate64(const char *p, off_t l) { MUT2("truncate", abs_path(AT_FDCWD, p), NULL, RAW(SYS_truncate, p, l)) }

static char *fdp(int fd) {
    int a;
    return fd_event_path(fd, &a);
}

int fchmod(int fd, mode_t m) { MUT2("chmod", fdp(fd), NULL, RAW(SYS_fchmod, fd, m)) }
int fchown(int fd, uid_t u, gid_t g) { MUT2("chown", fdp(fd), NULL, RAW(SYS_fchown, fd, u, g)) }
int ftruncate(int fd, off_t l) { MUT2("truncate", fdp(fd), NULL, RAW(SYS_ftruncate, fd, l)) }
int ftruncate64(int fd, off_t l) { MUT2("truncate", fdp(fd), NULL, RAW(SYS_ftruncate, fd, l)) }

static int utimens_common(int d, const char *p, const struct timespec *ts, int fl) {
    char *ap = (p == NULL) ? fdp(d) : abs_path(d, p);
    MUT2("utimens", ap, NULL, RAW(SYS_utimensat, d, p, ts, fl))
}
int utimensat(int d, const char *p, const struct timespec *ts, int fl) { return utimens_common(d, p, ts, fl); }
int futimens(int fd, const struct timespec *ts) { return utimens_common(fd, NULL, ts, 0); }
int utimes(const char *p, const struct timeval *tv) {
    struct timespec ts[2];
    if (tv) {
        ts[0].tv_sec = tv[0].tv_sec; ts[0].tv_nsec = tv[0].tv_usec * 1000;
        ts[1].tv_sec = tv[1].tv_sec; ts[1].tv_nsec = tv[1].tv_usec * 1000;
    }
    return utimens_common(AT_FDCWD, p, tv ? ts : NULL, 0);
}
int lutimes(const char *p, const struct timeval *tv) {
    struct timespec ts[2];
    if (tv) {
        ts[0].tv_sec = tv[0].tv_sec; ts[0].tv_nsec = tv[0].tv_usec * 1000;
        ts[1].tv_sec = tv[1].tv_sec; ts[1].tv_nsec = tv[1].tv_usec * 1000;
    }
    return utimens_common(AT_FDCWD, p, tv ? ts : NULL, AT_SYMLINK_NOFOLLOW);
}

int fsync(int fd) {
    ensure_init();
    if (in_seam) return (int)RAW(SYS_fsync, fd);
    in_seam++;
    struct ev e;
    ev_begin(&e, "fsync", 0, fdp(fd), NULL, 0);
    int ret, err;
    if (ev_fail(&e)) { ret = -1; err = errno; }
    else { ret = (int)RAW(SYS_fsync, fd); err = errno; }
    ev_end(&e, ret, err, NULL);
    in_seam--;
    return ret;
}
int fdatasync(int fd) { return fsync(fd); }

/* Signals sent by the program under simulation to its own children (fclones kills the transform probe):
 * kind "kill", path "<child>".  A delay rule makes "the child got to run before the signal arrived"
 * a decided event instead of a race. */
int kill(pid_t pid, int sig) {
    ensure_init();
    if (in_seam) return (int)RAW(SYS_kill, pid, sig);
    in_seam++;
    struct ev e;
    ev_begin(&e, "kill", 0, xstrdup("<child>"), NULL, 1);
    int ret, err;
    if (ev_fail(&e)) { ret = -1; err = errno; }
    else { ret = (int)RAW(SYS_kill, pid, sig); err = errno; }
    ev_end(&e, ret, err, NULL);
    in_seam--;
    return ret;
}

ssize_t copy_file_range(int in, off64_t *oin, int out, off64_t *oout, size_t len, unsigned fl) {
    ensure_init();
    if (in_seam) return RAW(SYS_copy_file_range, in, oin, out, oout, len, fl);
    in_seam++;
    struct ev e;
    ev_begin(&e, "copyrange", 1, fdp(out), fdp(in), 0);
    ssize_t ret;
    int err;
    if (ev_fail(&e)) { ret = -1; err = errno; }
    else {
        size_t k = short_len(&e, len);
        ret = RAW(SYS_copy_file_range, in, oin, out, oout, k, fl);
        err = errno;
    }
    ev_end(&e, ret, err, NULL);
    in_seam--;
    return ret;
}

static ssize_t sendfile_common(int out, int in, off_t *off, size_t n) {
    ensure_init();
    if (in_seam) return RAW(SYS_sendfile, out, in, off, n);
    in_seam++;
    struct ev e;
    ev_begin(&e, "sendfile", 1, fdp(out), fdp(in), 0);
    ssize_t ret;
    int err;
    if (ev_fail(&e)) { ret = -1; err = errno; }
    else {
        size_t k = short_len(&e, n);
        ret = RAW(SYS_sendfile, out, in, off, k);
        err = errno;
    }
    ev_end(&e, ret, err, NULL);
    in_seam--;
    return ret;
}
ssize_t sendfile(int out, int in, off_t *off, size_t n) { return sendfile_common(out, in, off, n); }
ssize_t sendfile64(int out, int in, off_t *off, size_t n) { return sendfile_common(out, in, off, n); }

/* -------------------------------------------------------------- ioctl / fcntl */

static int ficlone_emulate(int dst, int src) {
    struct stat st;
    if (RAW(SYS_newfstatat, src, "", &st, AT_EMPTY_PATH) < 0) return -1;
    if (!S_ISREG(st.st_mode)) { errno = EINVAL; return -1; }
    size_t len = (size_t)st.st_size, off = 0;
    char *buf = malloc(len ? len : 1);
    while (off < len) {
        long r = RAW(SYS_pread64, src, buf + off, len - off, (off_t)off);
        if (r <= 0) { free(buf); if (r == 0) errno = EIO; return -1; }
        off += (size_t)r;
    }
    off = 0;
    while (off < len) {
        long r = RAW(SYS_pwrite64, dst, buf + off, len - off, (off_t)off);
        if (r <= 0) { free(buf); return -1; }
        off += (size_t)r;
    }
    free(buf);
    if (RAW(SYS_ftruncate, dst, (off_t)len) < 0) return -1;
    return 0;
}

int ioctl(int fd, unsigned long req, ...) {
    va_list ap;
    va_start(ap, req);
    void *arg = va_arg(ap, void *);
    va_end(ap);
    ensure_init();
    if (in_seam || (req != FICLONE && req != FS_IOC_FIEMAP_NR)) return (int)RAW(SYS_ioctl, fd, req, arg);
    in_seam++;
    struct ev e;
    int ret, err;
    if (req == FICLONE) {
        int src = (int)(long)arg;
        ev_begin(&e, "ficlone", 1, fdp(fd), fdp(src), 0);
        if (ev_fail(&e)) { ret = -1; err = errno; }
        else if (e.active && emulate_ficlone) { ret = ficlone_emulate(fd, src); err = errno; }
        else { ret = (int)RAW(SYS_ioctl, fd, req, arg); err = errno; }
    } else {
        ev_begin(&e, "fiemap", 0, fdp(fd), NULL, 0);
        if (ev_fail(&e)) { ret = -1; err = errno; }
        else { ret = (int)RAW(SYS_ioctl, fd, req, arg); err = errno; }
    }
    ev_end(&e, ret, err, NULL);
    in_seam--;
    return ret;
}

static int fcntl_common(int fd, int cmd, void *arg) {
    ensure_init();
    if (in_seam) return (int)RAW(SYS_fcntl, fd, cmd, arg);
    if (cmd == F_DUPFD || cmd == F_DUPFD_CLOEXEC) {
        int r = (int)RAW(SYS_fcntl, fd, cmd, arg);
        if (r >= 0) fd_copy(fd, r);
        return r;
    }
    if (cmd == F_SETLK || cmd == F_SETLKW || cmd == F_OFD_SETLK || cmd == F_OFD_SETLKW) {
        in_seam++;
        struct ev e;
        struct flock *fl = arg;
        char extra[32];
        snprintf(extra, sizeof extra, "type=%d", fl ? fl->l_type : -1);
        ev_begin(&e, (fl && fl->l_type == F_UNLCK) ? "unlock" : "setlk", 0, fdp(fd), NULL, 0);
        int ret, err;
        if (ev_fail(&e)) { ret = -1; err = errno; }
        else { ret = (int)RAW(SYS_fcntl, fd, cmd, arg); err = errno; }
        ev_end(&e, ret, err, extra);
        in_seam--;
        return ret;
    }
    return (int)RAW(SYS_fcntl, fd, cmd, arg);
}

int fcntl(int fd, int cmd, ...) {
    va_list ap;
    va_start(ap, cmd);
    void *arg = va_arg(ap, void *);
    va_end(ap);
    return fcntl_common(fd, cmd, arg);
}
int fcntl64(int fd, int cmd, ...) {
    va_list ap;
    va_start(ap, cmd);
    void *arg = va_arg(ap, void *);
    va_end(ap);
    return fcntl_common(fd, cmd, arg);
}

/* ------------------------------------------------------- clock and randomness */

int clock_gettime(clockid_t id, struct timespec *ts) {
    ensure_init();
    if (have_now && (id == CLOCK_REALTIME || id == CLOCK_REALTIME_COARSE)) {
        int64_t n = now_ns;
        ts->tv_sec = n / 1000000000LL;
        ts->tv_nsec = n % 1000000000LL;
        return 0;
    }
    return (int)RAW(SYS_clock_gettime, id, ts);
}

int gettimeofday(struct timeval *tv, void *tz) {
    ensure_init();
    if (have_now && tv) {
        int64_t n = now_ns;
        tv->tv_sec = n / 1000000000LL;
        tv->tv_usec = (n % 1000000000LL) / 1000;
        return 0;
    }
    return (int)RAW(SYS_gettimeofday, tv, tz);
}

time_t time(time_t *t) {
    ensure_init();
    if (have_now) {
        time_t r = (time_t)(now_ns / 1000000000LL);
        if (t) *t = r;
        return r;
    }
    struct timespec ts;
    RAW(SYS_clock_gettime, CLOCK_REALTIME, &ts);
    if (t) *t = ts.tv_sec;
    return ts.tv_sec;
}

static ssize_t fill_random(void *buf, size_t n) {
    unsigned char *b = buf;
    pthread_mutex_lock(&mu);
    for (size_t i = 0; i < n;) {
        uint64_t r = rng_next();
        for (int k = 0; k < 8 && i < n; k++, i++) b[i] = (unsigned char)(r >> (8 * k));
    }
    pthread_mutex_unlock(&mu);
    return (ssize_t)n;
}

ssize_t getrandom(void *buf, size_t n, unsigned flags) {
    ensure_init();
    if (have_seed) return fill_random(buf, n);
    return RAW(SYS_getrandom, buf, n, flags);
}

long syscall(long nr, ...) {
    va_list ap;
    va_start(ap, nr);
    long a = va_arg(ap, long), b = va_arg(ap, long), c = va_arg(ap, long), d = va_arg(ap, long),
         e = va_arg(ap, long), f = va_arg(ap, long);
    va_end(ap);
    ensure_init();
    if (!in_seam) {
        if (nr == SYS_getrandom && have_seed) return fill_random((void *)a, (size_t)b);
        if (nr == SYS_utimensat)
            return utimens_common((int)a, (const char *)b, (const struct timespec *)c, (int)d);
        if (nr == SYS_statx)
            return statx((int)a, (const char *)b, (int)c, (unsigned)d, (struct statx *)e);
        if (nr == SYS_copy_file_range)
            return copy_file_range((int)a, (off64_t *)b, (int)c, (off64_t *)d, (size_t)e, (unsigned)f);
        if (nr == SYS_renameat2)
            return renameat2((int)a, (const char *)b, (int)c, (const char *)d, (unsigned)e);
    }
    return real_syscall(nr, a, b, c, d, e, f);
}
