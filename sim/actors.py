"""Simulator actors: "the user / another program" editing the tree at a simulated instant."""
import os
import shutil

from .core import s2b
from .world import content_bytes

EDIT_KINDS = ["rewrite_same", "rewrite_other", "append", "truncate", "delete", "recreate",
              "to_dir", "to_symlink_member", "to_symlink_outside", "touch"]


def _stamp(p, ns, follow=True):
    os.utime(p, ns=(ns, ns), follow_symlinks=follow)


def apply_edit(root, edit, now_ns):
    """edit: {"kind":..., "p": world-relative path, "uid": unique text, ["other": rel path]}.
    Every write produces globally unique content (keyed by uid) and is stamped with now_ns."""
    rootb = root.encode() if isinstance(root, str) else root
    p = os.path.join(rootb, s2b(edit["p"]))
    k = edit["kind"]
    uid = edit["uid"]
    import stat as _stat
    try:
        st = os.lstat(p)
        size = st.st_size
    except OSError:
        st = None
        size = 16
    if st is not None and _stat.S_ISDIR(st.st_mode):
        return False            # an earlier edit turned it into a directory: leave it
    if st is not None and _stat.S_ISLNK(st.st_mode) and k in ("rewrite_same", "append", "truncate", "touch"):
        return False            # in-place edits are only generated for regular files
    if not os.path.isdir(os.path.dirname(p)):
        return False
    if k == "rewrite_through":
        # an ordinary write to the path: through a symbolic link it changes the link's TARGET (same length,
        # target's mtime = now; the link's own times stay)
        try:
            tsize = os.stat(p).st_size
        except OSError:
            return False
        with open(p, "r+b") as f:
            f.write(content_bytes({"uniq": uid, "len": max(tsize, 1)})[:tsize] if tsize else b"")
        _stamp(p, now_ns)
        return True
    if k == "rewrite_same":
        if st is None:
            return False
        with open(p, "r+b") as f:
            f.write(content_bytes({"uniq": uid, "len": max(size, 1)})[:size] if size else b"")
        _stamp(p, now_ns)
    elif k == "rewrite_other":
        with open(p, "wb") as f:
            f.write(content_bytes({"uniq": uid, "len": size + 5 + len(uid)}))
        _stamp(p, now_ns)
    elif k == "append":
        if st is None:
            return False
        with open(p, "ab") as f:
            f.write(("+" + uid).encode())
        _stamp(p, now_ns)
    elif k == "truncate":
        if st is None or size == 0:
            return False
        os.truncate(p, size // 2)
        _stamp(p, now_ns)
    elif k == "delete":
        if st is None:
            return False
        os.unlink(p)
    elif k == "recreate":
        if st is not None:
            os.unlink(p)
        with open(p, "wb") as f:
            f.write(content_bytes({"uniq": uid, "len": max(size, len(uid) + 6)}))
        _stamp(p, now_ns)
    elif k == "to_dir":
        if st is not None:
            os.unlink(p)
        os.mkdir(p)
        inner = os.path.join(p, b"inner")
        with open(inner, "wb") as f:
            f.write(content_bytes({"uniq": uid, "len": 40}))
        _stamp(inner, now_ns)
        _stamp(p, now_ns)
    elif k == "to_symlink_member":
        other = os.path.join(rootb, s2b(edit["other"]))
        if st is not None:
            os.unlink(p)
        os.symlink(other, p)
        _stamp(p, now_ns, follow=False)
    elif k == "to_symlink_outside":
        out = os.path.join(rootb, b"outside-" + uid.encode())
        # every other time the outside file is an OLD one of exactly the member's length: seen through the
        # link it passes a length check and a modification-time check (only the link itself is new)
        old_twin = (sum(uid.encode()) % 2 == 0) and size > 0
        with open(out, "wb") as f:
            f.write(content_bytes({"uniq": uid, "len": size if old_twin else max(size, len(uid) + 6)}))
        _stamp(out, now_ns - 30 * 86400 * 10**9 if old_twin else now_ns)
        if st is not None:
            os.unlink(p)
        os.symlink(out, p)
        # ... and, for reports made WITHOUT --symbolic-links (edit["old_link"]), every other one of those links carries
        # the old time itself (restored by `cp -a` / `rsync -a`): no time tells the replacement then, the file type does
        # ("not a regular file": the changed file is left out).  In a -S report a link is a legitimate member and only
        # the link's own time can tell - that case is outside the property's premise and is not generated.
        _stamp(p, now_ns - 30 * 86400 * 10**9 if old_twin and edit.get("old_link") and sum(uid.encode()) % 4 == 0 else now_ns,
               follow=False)
    elif k == "touch":
        if st is None:
            return False
        _stamp(p, now_ns)
    else:
        raise ValueError(k)
    return True
