//! Engine B1: the REAL `/repo/fclones/src/semaphore.rs` under shuttle's scheduler.
//!
//! Every lock / wait / notify of the semaphore is a scheduling point; the woken waiter is chosen
//! by the scheduler; spurious wake-ups are injected by the shim (shuttle itself does not model
//! them).  The scenario (threads, pairs, permits, guard style) is drawn from `shuttle::rand`, so it
//! is part of the replayable schedule.
//!
//! usage: b1 run   --sched random|pct|dfs --seed S --iters N --out DIR [bounds...]
//!        b1 replay --file SCHEDULE [bounds...]
//! Prints one JSON line with the outcome.  Exit 0 = no failure, 1 = failure found, 2 = usage.

#![allow(clippy::mutex_atomic)]

use std::panic;
use std::sync::atomic::{AtomicIsize, AtomicUsize, Ordering};

pub mod verif_shim {
    //! What `semaphore.rs` imports under `--cfg fclones_verif_shuttle`.
    pub mod sync {
        use std::ops::{Deref, DerefMut};
        use std::sync::atomic::{AtomicUsize, Ordering};

        pub use std::sync::Arc; // shuttle's Arc is std's Arc (no scheduling points)

        /// spurious wake-ups still allowed in the current execution
        pub static SPURIOUS_BUDGET: AtomicUsize = AtomicUsize::new(0);
        pub static SPURIOUS_FIRED: AtomicUsize = AtomicUsize::new(0);
        pub static WAITS: AtomicUsize = AtomicUsize::new(0);

        pub struct Mutex<T> {
            inner: shuttle::sync::Mutex<T>,
        }

        pub struct MutexGuard<'a, T> {
            guard: Option<shuttle::sync::MutexGuard<'a, T>>,
            mutex: &'a shuttle::sync::Mutex<T>,
        }

        impl<T> Mutex<T> {
            pub fn new(v: T) -> Self {
                Mutex {
                    inner: shuttle::sync::Mutex::new(v),
                }
            }
            pub fn lock(&self) -> Result<MutexGuard<'_, T>, ()> {
                let g = self.inner.lock().map_err(|_| ())?;
                Ok(MutexGuard {
                    guard: Some(g),
                    mutex: &self.inner,
                })
            }
        }

        impl<T> Deref for MutexGuard<'_, T> {
            type Target = T;
            fn deref(&self) -> &T {
                self.guard.as_ref().unwrap()
            }
        }
        impl<T> DerefMut for MutexGuard<'_, T> {
            fn deref_mut(&mut self) -> &mut T {
                self.guard.as_mut().unwrap()
            }
        }

        pub struct Condvar {
            inner: shuttle::sync::Condvar,
        }

        impl Condvar {
            pub fn new() -> Self {
                Condvar {
                    inner: shuttle::sync::Condvar::new(),
                }
            }

            pub fn wait<'a, T>(&self, mut guard: MutexGuard<'a, T>) -> Result<MutexGuard<'a, T>, ()> {
                use shuttle::rand::Rng;
                WAITS.fetch_add(1, Ordering::Relaxed);
                let mutex = guard.mutex;
                let inner = guard.guard.take().unwrap();
                let spurious = SPURIOUS_BUDGET.load(Ordering::Relaxed) > 0
                    && shuttle::rand::thread_rng().gen_bool(0.25);
                if spurious {
                    // a spurious wake-up: the mutex is released and re-taken without any notify
                    SPURIOUS_BUDGET.fetch_sub(1, Ordering::Relaxed);
                    SPURIOUS_FIRED.fetch_add(1, Ordering::Relaxed);
                    drop(inner);
                    shuttle::thread::sleep(std::time::Duration::from_millis(0));
                    let g = mutex.lock().map_err(|_| ())?;
                    return Ok(MutexGuard {
                        guard: Some(g),
                        mutex,
                    });
                }
                let g = self.inner.wait(inner).map_err(|_| ())?;
                Ok(MutexGuard {
                    guard: Some(g),
                    mutex,
                })
            }

            pub fn notify_one(&self) {
                self.inner.notify_one()
            }
            pub fn notify_all(&self) {
                self.inner.notify_all()
            }
        }

        impl Default for Condvar {
            fn default() -> Self {
                Self::new()
            }
        }
    }
}

// the real file from the repository under test (VERIF_REPO, normally /repo), not a copy
#[allow(dead_code)]
mod semaphore {
    include!(concat!(env!("VERIF_REPO"), "/fclones/src/semaphore.rs"));
}

use semaphore::Semaphore;
use verif_shim::sync::{SPURIOUS_BUDGET, SPURIOUS_FIRED, WAITS};

#[derive(Clone, Copy, Debug)]
struct Bounds {
    max_threads: usize,
    max_pairs: usize,
    max_permits: usize,
    spurious: usize,
}

static EXECUTIONS: AtomicUsize = AtomicUsize::new(0);
static ACQUISITIONS: AtomicUsize = AtomicUsize::new(0);
static MOVED_GUARDS: AtomicUsize = AtomicUsize::new(0);
static SCEN_HASH: AtomicUsize = AtomicUsize::new(0);

fn scenario(b: Bounds) {
    use shuttle::rand::Rng;
    use shuttle::sync::mpsc;
    use shuttle::thread;
    use std::sync::Arc;

    EXECUTIONS.fetch_add(1, Ordering::Relaxed);
    SPURIOUS_BUDGET.store(b.spurious, Ordering::Relaxed);
    let mut rng = shuttle::rand::thread_rng();
    let nthreads = rng.gen_range(2..=b.max_threads.max(2));
    let permits = rng.gen_range(0..=b.max_permits);
    let pairs: Vec<usize> = (0..nthreads).map(|_| rng.gen_range(1..=b.max_pairs.max(1))).collect();
    let styles: Vec<u8> = (0..nthreads).map(|_| rng.gen_range(0..4u8)).collect();
    // with no initial permits a producer releases as many as are needed for everybody to finish
    let produced = if permits == 0 { 1 + rng.gen_range(0..2usize) } else { 0 };
    SCEN_HASH.fetch_xor(
        nthreads * 1_000_003 + permits * 10_007 + pairs.iter().sum::<usize>() * 101 + styles.iter().map(|&s| s as usize).sum::<usize>() * 7 + produced,
        Ordering::Relaxed,
    );

    let sem = Arc::new(Semaphore::new(permits as isize));
    let holders = Arc::new(AtomicIsize::new(0));
    let capacity = Arc::new(AtomicIsize::new(permits as isize));
    let (tx, rx) = mpsc::channel::<semaphore::OwnedSemaphoreGuard>();

    let check_in = |holders: &AtomicIsize, capacity: &AtomicIsize| {
        let h = holders.fetch_add(1, Ordering::SeqCst) + 1;
        let cap = capacity.load(Ordering::SeqCst);
        assert!(h <= cap, "semaphore admitted {h} holders with only {cap} permits");
        ACQUISITIONS.fetch_add(1, Ordering::Relaxed);
    };

    let mut handles = Vec::new();
    // a thread that drops guards acquired elsewhere (guards released on another thread)
    let holders_d = holders.clone();
    let dropper = thread::spawn(move || {
        while let Ok(g) = rx.recv() {
            thread::sleep(std::time::Duration::from_millis(0));
            holders_d.fetch_sub(1, Ordering::SeqCst);
            drop(g);
        }
    });
    for t in 0..nthreads {
        let sem = sem.clone();
        let holders = holders.clone();
        let capacity = capacity.clone();
        let tx = tx.clone();
        let n = pairs[t];
        let style = styles[t];
        handles.push(thread::spawn(move || {
            for _ in 0..n {
                match style {
                    0 => {
                        sem.acquire();
                        check_in(&holders, &capacity);
                        thread::sleep(std::time::Duration::from_millis(0));
                        holders.fetch_sub(1, Ordering::SeqCst);
                        sem.release();
                    }
                    1 => {
                        let g = sem.access();
                        check_in(&holders, &capacity);
                        thread::sleep(std::time::Duration::from_millis(0));
                        holders.fetch_sub(1, Ordering::SeqCst);
                        drop(g);
                    }
                    2 => {
                        let g = sem.clone().access_owned();
                        check_in(&holders, &capacity);
                        thread::sleep(std::time::Duration::from_millis(0));
                        holders.fetch_sub(1, Ordering::SeqCst);
                        drop(g);
                    }
                    _ => {
                        let g = sem.clone().access_owned();
                        check_in(&holders, &capacity);
                        MOVED_GUARDS.fetch_add(1, Ordering::Relaxed);
                        tx.send(g).unwrap(); // released by the dropper thread
                    }
                }
            }
        }));
    }
    drop(tx);
    if produced > 0 {
        let sem = sem.clone();
        let capacity = capacity.clone();
        handles.push(thread::spawn(move || {
            for _ in 0..produced {
                thread::sleep(std::time::Duration::from_millis(0));
                capacity.fetch_add(1, Ordering::SeqCst);
                sem.release();
            }
        }));
    }
    for h in handles {
        h.join().unwrap();
    }
    dropper.join().unwrap();
    // after all guards are dropped the full permit count is available again: acquiring all of it
    // must not block (a block here is reported by shuttle as a deadlock)
    let total = capacity.load(Ordering::SeqCst);
    assert_eq!(holders.load(Ordering::SeqCst), 0, "holders counter not back to zero");
    SPURIOUS_BUDGET.store(0, Ordering::Relaxed);
    for _ in 0..total {
        sem.acquire();
    }
}

fn arg(args: &[String], name: &str, default: &str) -> String {
    args.iter()
        .position(|a| a == name)
        .and_then(|i| args.get(i + 1).cloned())
        .unwrap_or_else(|| default.to_string())
}

fn bounds_from(args: &[String]) -> Bounds {
    Bounds {
        max_threads: arg(args, "--max-threads", "4").parse().unwrap(),
        max_pairs: arg(args, "--max-pairs", "3").parse().unwrap(),
        max_permits: arg(args, "--max-permits", "2").parse().unwrap(),
        spurious: arg(args, "--spurious", "2").parse().unwrap(),
    }
}

fn main() {
    let args: Vec<String> = std::env::args().collect();
    if args.len() < 2 {
        eprintln!("usage: b1 run|replay ...");
        std::process::exit(2);
    }
    let b = bounds_from(&args);
    let mut cfg = shuttle::Config::new();
    cfg.stack_size = 256 * 1024;
    cfg.max_steps = shuttle::MaxSteps::FailAfter(200_000);
    let t0 = std::time::Instant::now();
    let mode = args[1].as_str();
    let result = match mode {
        "run" => {
            let seed: u64 = arg(&args, "--seed", "1").parse().unwrap();
            let iters: usize = arg(&args, "--iters", "10000").parse().unwrap();
            let out = arg(&args, "--out", "/tmp");
            cfg.failure_persistence = shuttle::FailurePersistence::File(Some(std::path::PathBuf::from(&out)));
            let sched = arg(&args, "--sched", "random");
            panic::catch_unwind(move || match sched.as_str() {
                "pct" => {
                    let depth: usize = arg(&args, "--depth", "3").parse().unwrap();
                    let s = shuttle::scheduler::PctScheduler::new_from_seed(seed, depth, iters);
                    shuttle::Runner::new(s, cfg).run(move || scenario(b));
                }
                "dfs" => {
                    let s = shuttle::scheduler::DfsScheduler::new(Some(iters), true);
                    shuttle::Runner::new(s, cfg).run(move || scenario(b));
                }
                _ => {
                    let s = shuttle::scheduler::RandomScheduler::new_from_seed(seed, iters);
                    shuttle::Runner::new(s, cfg).run(move || scenario(b));
                }
            })
        }
        "replay" => {
            let file = arg(&args, "--file", "");
            panic::catch_unwind(move || shuttle::replay_from_file(move || scenario(b), &file))
        }
        _ => {
            eprintln!("unknown mode");
            std::process::exit(2);
        }
    };
    let failed = result.is_err();
    let msg = match &result {
        Err(e) => e
            .downcast_ref::<String>()
            .cloned()
            .or_else(|| e.downcast_ref::<&str>().map(|s| s.to_string()))
            .unwrap_or_default(),
        Ok(_) => String::new(),
    };
    let msg: String = msg.chars().filter(|c| *c != '"' && *c != '\\' && *c != '\n').take(400).collect();
    println!(
        "{{\"failed\": {}, \"executions\": {}, \"acquisitions\": {}, \"waits\": {}, \"spurious_fired\": {}, \"moved_guards\": {}, \"scen_hash\": {}, \"wall_s\": {:.3}, \"message\": \"{}\"}}",
        failed,
        EXECUTIONS.load(Ordering::Relaxed),
        ACQUISITIONS.load(Ordering::Relaxed),
        WAITS.load(Ordering::Relaxed),
        SPURIOUS_FIRED.load(Ordering::Relaxed),
        MOVED_GUARDS.load(Ordering::Relaxed),
        SCEN_HASH.load(Ordering::Relaxed),
        t0.elapsed().as_secs_f64(),
        msg
    );
    std::process::exit(if failed { 1 } else { 0 });
}
