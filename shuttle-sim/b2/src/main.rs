//! Engine B2: the REAL `group_files` / `rehash` pipeline of fclones under shuttle's scheduler.
//!
//! The library is compiled through a generated shadow manifest with
//! `--cfg fclones_verif --cfg fclones_verif_shuttle`: the per-device threads, the hashing pools,
//! the task-throttle semaphore, the open-file semaphore and the result channel are shuttle
//! primitives, so their interleaving is decided by the seeded scheduler.  File reads, hashing and
//! the directory walk stay real (opaque steps for the scheduler).
//!
//! usage: b2 run    --sched random|pct --seed S --iters N --out DIR --tree DIR [--scenario K]
//!        b2 replay --file SCHEDULE --tree DIR --scenario K
//! One JSON line with the outcome is printed.  Exit 0 = all schedules agree, 1 = failure.

use std::collections::BTreeSet;
use std::panic;
use std::path::{Path as StdPath, PathBuf};
use std::sync::atomic::{AtomicUsize, Ordering};
use std::sync::{Arc, Mutex};

use fclones::config::GroupConfig;
use fclones::log::{Log, LogLevel, ProgressBarLength};
use fclones::progress::{NoProgressBar, ProgressTracker};
use fclones::{group_files, Path};

struct QuietLog {
    warnings: AtomicUsize,
}

impl Log for QuietLog {
    fn progress_bar(&self, _msg: &str, _len: ProgressBarLength) -> Arc<dyn ProgressTracker> {
        Arc::new(NoProgressBar)
    }
    fn log(&self, level: LogLevel, _msg: String) {
        if let LogLevel::Warn = level {
            self.warnings.fetch_add(1, Ordering::Relaxed);
        }
    }
}

static EXECUTIONS: AtomicUsize = AtomicUsize::new(0);

/// scenario K -> (files to create, group options)
struct Scenario {
    files: Vec<(&'static str, Vec<u8>)>,
    hard_links: Vec<(&'static str, &'static str)>,
    threads: Vec<(&'static str, usize, usize)>,
    unique: bool,
    rf_over: Option<usize>,
    rf_under: Option<usize>,
    two_devices: bool,
}

fn content(fam: u8, len: usize, flip: Option<usize>) -> Vec<u8> {
    let mut v: Vec<u8> = (0..len).map(|i| (i as u8).wrapping_mul(31).wrapping_add(fam)).collect();
    if let Some(o) = flip {
        if o < len {
            v[o] ^= 0x55;
        }
    }
    v
}

fn scenario(k: usize) -> Scenario {
    // sizes relative to the knob overrides MIN_PREFIX=16 MAX_PREFIX=64 BUF=32 SUFFIX_THRESHOLD=128
    let mut files = vec![
        ("d1/a", content(1, 300, None)),
        ("d1/b", content(1, 300, None)),
        ("d2/c", content(1, 300, None)),
        ("d2/p", content(1, 300, Some(20))),   // differs in the prefix
        ("d1/s", content(1, 300, Some(290))),  // differs in the suffix
        ("d2/m", content(1, 300, Some(150))),  // differs in the middle
        ("d1/x", content(2, 40, None)),
        ("d2/y", content(2, 40, None)),
        ("d2/u", content(3, 77, None)),
    ];
    if k % 2 == 1 {
        files.push(("d2/z1", content(4, 300, None)));
        files.push(("d1/z2", content(4, 300, None)));
    }
    let threads = match k % 4 {
        0 => vec![("default", 1, 1)],
        1 => vec![("default", 2, 2)],
        2 => vec![("default", 3, 1)],
        _ => vec![("default", 2, 3)],
    };
    // scenarios 6 and 16: an under-replicated class (2 inodes, --rf-under 3) whose inodes have several hard
    // links each - the replica count must not depend on the order in which the links arrive from the pools
    let many_links = k % 10 == 6;
    let mut hard_links = vec![("d1/a", "d2/a_link")];
    if many_links {
        if k % 2 == 0 {
            files.push(("d2/z1", content(4, 300, None)));
            files.push(("d1/z2", content(4, 300, None)));
        }
        hard_links.extend(vec![
            ("d2/z1", "d1/z1_l1"),
            ("d2/z1", "d2/z1_l2"),
            ("d2/z1", "d1/z1_l3"),
            ("d1/z2", "d2/z2_l1"),
            ("d1/z2", "d1/z2_l2"),
            ("d1/z2", "d2/z2_l3"),
        ]);
    }
    Scenario {
        files,
        hard_links,
        threads: if many_links { vec![("default", 2, 3)] } else { threads },
        unique: k % 5 == 4,
        rf_over: if k % 5 == 3 { Some(2) } else { None },
        rf_under: if many_links { Some(3) } else { None },
        two_devices: k % 3 == 2,
    }
}

fn build_tree(root: &StdPath, sc: &Scenario) {
    let _ = std::fs::remove_dir_all(root);
    for (p, data) in &sc.files {
        let fp = root.join(p);
        std::fs::create_dir_all(fp.parent().unwrap()).unwrap();
        std::fs::write(&fp, data).unwrap();
    }
    for (a, b) in &sc.hard_links {
        std::fs::hard_link(root.join(a), root.join(b)).unwrap();
    }
}

/// byte-level truth: classes of identical files with >= 2 distinct inodes (default filter)
fn truth(root: &StdPath, sc: &Scenario) -> BTreeSet<BTreeSet<PathBuf>> {
    use std::collections::BTreeMap;
    use std::os::unix::fs::MetadataExt;
    let mut all: Vec<PathBuf> = sc.files.iter().map(|(p, _)| root.join(p)).collect();
    for (_, b) in &sc.hard_links {
        all.push(root.join(b));
    }
    let mut classes: BTreeMap<Vec<u8>, Vec<PathBuf>> = BTreeMap::new();
    for p in all {
        classes.entry(std::fs::read(&p).unwrap()).or_default().push(p);
    }
    let mut out = BTreeSet::new();
    for (_, paths) in classes {
        let inodes: BTreeSet<u64> = paths.iter().map(|p| std::fs::metadata(p).unwrap().ino()).collect();
        let n = inodes.len();
        let reported = if sc.unique {
            n < 2
        } else if let Some(u) = sc.rf_under {
            n < u
        } else {
            n > sc.rf_over.unwrap_or(1)
        };
        if reported {
            out.insert(paths.into_iter().collect());
        }
    }
    out
}

type Outcome = Vec<(u64, String, Vec<String>)>;

fn run_once(root: &StdPath, sc: &Scenario) -> Outcome {
    let log = QuietLog {
        warnings: AtomicUsize::new(0),
    };
    let mut config = GroupConfig::default();
    config.paths = vec![Path::from(root.join("d1")), Path::from(root.join("d2"))];
    config.min_size = fclones::FileLen(1);
    config.unique = sc.unique;
    config.rf_over = sc.rf_over;
    config.rf_under = sc.rf_under;
    config.threads = sc
        .threads
        .iter()
        .map(|(n, r, s)| {
            (
                std::ffi::OsString::from(*n),
                fclones::config::Parallelism {
                    random: *r,
                    sequential: *s,
                },
            )
        })
        .collect();
    let groups = group_files(&config, &log).expect("group_files failed");
    groups
        .iter()
        .map(|g| {
            (
                g.file_len.0,
                g.file_hash.to_string(),
                g.files.iter().map(|f| f.path.to_escaped_string()).collect(),
            )
        })
        .collect()
}

fn arg(args: &[String], name: &str, default: &str) -> String {
    args.iter()
        .position(|a| a == name)
        .and_then(|i| args.get(i + 1).cloned())
        .unwrap_or_else(|| default.to_string())
}

fn main() {
    let args: Vec<String> = std::env::args().collect();
    if args.len() < 2 {
        eprintln!("usage: b2 run|replay ...");
        std::process::exit(2);
    }
    let tree = PathBuf::from(arg(&args, "--tree", "/dev/shm/fclonessim/b2tree"));
    let k: usize = arg(&args, "--scenario", "0").parse().unwrap();
    let sc = scenario(k);
    build_tree(&tree, &sc);
    // knobs + pinned devices (the hooks read these only under --cfg fclones_verif)
    std::env::set_var("FCLONES_VERIF_MIN_PREFIX", "16");
    std::env::set_var("FCLONES_VERIF_MAX_PREFIX", "64");
    std::env::set_var("FCLONES_VERIF_BUF_LEN", "32");
    std::env::set_var("FCLONES_VERIF_SUFFIX_THRESHOLD", "128");
    let devs = if sc.two_devices {
        format!("/=ssd:simroot;{}=ssd:simdisk2", tree.join("d2").display())
    } else {
        "/=ssd:simroot".to_string()
    };
    std::env::set_var("FCLONES_VERIF_DEVICES", devs);
    // the global rayon pool (walk, parallel sorts) has one real thread and never touches shuttle
    rayon::ThreadPoolBuilder::new().num_threads(1).build_global().unwrap();

    let expected = truth(&tree, &sc);
    let reference: Arc<Mutex<Option<Outcome>>> = Arc::new(Mutex::new(None));
    let tree2 = tree.clone();
    let reference2 = reference.clone();
    let body = Arc::new(move || {
        EXECUTIONS.fetch_add(1, Ordering::Relaxed);
        let sc = scenario(k);
        let out = run_once(&tree2, &sc);
        // C03: the partition equals the byte-level truth on every schedule
        let got: BTreeSet<BTreeSet<PathBuf>> = out
            .iter()
            .map(|(_, _, files)| files.iter().map(PathBuf::from).collect())
            .collect();
        assert!(
            got == expected,
            "partition differs from the byte-level truth: got {:?} expected {:?}",
            got,
            expected
        );
        // C13: identical INCLUDING order across schedules
        let mut r = reference2.lock().unwrap();
        match &*r {
            None => *r = Some(out),
            Some(first) => assert!(
                *first == out,
                "result depends on the schedule: round-robin reference {:?} now {:?}",
                first,
                out
            ),
        }
    });
    let body = {
        let b = body.clone();
        move || b()
    };

    let mut cfg = shuttle::Config::new();
    cfg.stack_size = 8 * 1024 * 1024;
    cfg.max_steps = shuttle::MaxSteps::FailAfter(2_000_000);
    cfg.silence_warnings = true;
    let t0 = std::time::Instant::now();
    // The reference result comes from one execution under a fixed round-robin schedule, in `run`
    // and in `replay` alike, so that a replayed schedule is compared with the same reference.
    {
        let body = body.clone();
        let mut c0 = shuttle::Config::new();
        c0.stack_size = 8 * 1024 * 1024;
        c0.silence_warnings = true;
        // shuttle installs its panic hook once, with the persistence mode of the first runner
        if args[1] == "run" {
            c0.failure_persistence = shuttle::FailurePersistence::File(Some(PathBuf::from(arg(&args, "--out", "/tmp"))));
        }
        let r = panic::catch_unwind(panic::AssertUnwindSafe(move || {
            shuttle::Runner::new(shuttle::scheduler::RoundRobinScheduler::new(1), c0).run(body);
        }));
        if r.is_err() {
            println!("{{\"failed\": true, \"executions\": 1, \"scenario\": {}, \"groups\": 0, \"wall_s\": 0.0, \"message\": \"reference execution (round robin) failed: partition differs or deadlock\"}}", k);
            std::process::exit(1);
        }
    }
    let result = match args[1].as_str() {
        "run" => {
            let seed: u64 = arg(&args, "--seed", "1").parse().unwrap();
            let iters: usize = arg(&args, "--iters", "200").parse().unwrap();
            let out = arg(&args, "--out", "/tmp");
            cfg.failure_persistence = shuttle::FailurePersistence::File(Some(PathBuf::from(&out)));
            let sched = arg(&args, "--sched", "random");
            let depth: usize = arg(&args, "--depth", "3").parse().unwrap();
            panic::catch_unwind(panic::AssertUnwindSafe(move || match sched.as_str() {
                "pct" => {
                    let s = shuttle::scheduler::PctScheduler::new_from_seed(seed, depth, iters);
                    shuttle::Runner::new(s, cfg).run(body);
                }
                _ => {
                    let s = shuttle::scheduler::RandomScheduler::new_from_seed(seed, iters);
                    shuttle::Runner::new(s, cfg).run(body);
                }
            }))
        }
        "replay" => {
            let file = arg(&args, "--file", "");
            panic::catch_unwind(panic::AssertUnwindSafe(move || shuttle::replay_from_file(body, &file)))
        }
        _ => std::process::exit(2),
    };
    let failed = result.is_err();
    let msg = match &result {
        Err(e) => e
            .downcast_ref::<String>()
            .cloned()
            .or_else(|| e.downcast_ref::<&str>().map(|s| s.to_string()))
            .unwrap_or_default(),
        Ok(_) => String::new(),
    };
    let msg: String = msg.chars().filter(|c| *c != '"' && *c != '\\' && *c != '\n').take(600).collect();
    let ngroups = reference.lock().map(|r| r.as_ref().map(|o| o.len()).unwrap_or(0)).unwrap_or(0);
    println!(
        "{{\"failed\": {}, \"executions\": {}, \"scenario\": {}, \"groups\": {}, \"wall_s\": {:.3}, \"message\": \"{}\"}}",
        failed,
        EXECUTIONS.load(Ordering::Relaxed),
        k,
        ngroups,
        t0.elapsed().as_secs_f64(),
        msg
    );
    let _ = std::fs::remove_dir_all(&tree);
    std::process::exit(if failed { 1 } else { 0 });
}
