"""C19 - the task/open-file semaphore is safe and live under all interleavings.

Engine B1: the real semaphore.rs compiled against shuttle's scheduler-controlled Mutex/Condvar
(nondeterministic wakee, injected spurious wake-ups), explored with seeded random and PCT
schedulers; failing schedules are persisted and replayed exactly."""
import json
import os
import shutil
import time

from .. import core, shuttle
from ..core import HarnessError, VERIF
from ..runner import REPLAYS, EVIDENCE, load_known

ID = "C19"
ENGINE = "B"
LEVEL = "exploration"
BOUNDS = {"max_threads": 4, "max_pairs": 3, "max_permits": 2, "spurious": 2}
BUDGET = {"quick": {"procs": 16, "random": 60000, "pct": 30000}, "thorough": {"procs": 16, "random": 2_000_000, "pct": 700_000}}
RULE = ("each execution draws (from shuttle's own PRNG, so it is part of the schedule) 2..4 threads x 1..3 acquire/release "
        "pairs, 0..2 initial permits (+ a producer releasing 1..2 permits when 0), guard style per thread from {acquire/release, "
        "borrowed guard, owned guard dropped on the acquiring thread, owned guard moved through a channel and dropped on "
        "another thread}; every Mutex/Condvar operation of the real semaphore.rs is a scheduling point, the woken waiter is "
        "chosen by the scheduler, up to 2 spurious wake-ups per execution are injected; schedulers: seeded random and PCT "
        "(depth 2..5) over 16 processes with distinct seeds, plus shuttle's DFS on the 2-thread/1-pair/1-permit scenario as a "
        "cross-check (thorough); plus 36 fixed cases outside shuttle in which a holder fails (unwinds) while it holds 1..3 "
        "guards with a waiter started before or after. Oracles: holders <= permits at every acquisition, no deadlock / step-budget overrun (lost "
        "wake-up), after all guards are dropped the full permit count can be acquired without blocking. non-trivial = every "
        "execution (each contains >= 2 contending threads); distinct = distinct (process, scenario-hash) pairs is NOT "
        "measurable per schedule, so the count reported is the number of harness processes whose scenario mix differed")
ASSUMPTIONS = ["shuttle's Mutex/Condvar semantics (plus injected spurious wake-ups) stand for std's",
               "Arc has no scheduling points (shuttle's Arc is std's)", "exploration, not exhaustive enumeration"]


def _bounds_args(b):
    return ["--max-threads", b["max_threads"], "--max-pairs", b["max_pairs"], "--max-permits", b["max_permits"], "--spurious", b["spurious"]]


def _search(sched, seed, iters, bounds, outdir, depth=3):
    os.makedirs(outdir, exist_ok=True)
    return shuttle.run_bin(shuttle.B1_BIN, ["run", "--sched", sched, "--seed", seed, "--iters", iters, "--out", outdir,
                                           "--depth", depth] + _bounds_args(bounds))


def _newest_schedule(outdir):
    fs = [os.path.join(outdir, f) for f in os.listdir(outdir) if f.startswith("schedule")]
    return max(fs, key=os.path.getmtime) if fs else None


def minimise(sched, seed, bounds, depth):
    """re-search with monotonically smaller scenario bounds; keep the smallest failing one"""
    best = dict(bounds)
    for key, floor in (("spurious", 0), ("max_threads", 2), ("max_pairs", 1), ("max_permits", 0)):
        while best[key] > floor:
            trial = dict(best)
            trial[key] -= 1
            out = os.path.join(core.SHM, "b1min-%d" % os.getpid())
            shutil.rmtree(out, ignore_errors=True)
            r = _search(sched, seed, 100000, trial, out, depth)
            if r["failed"]:
                best = trial
            else:
                break
    out = os.path.join(core.SHM, "b1min-%d" % os.getpid())
    shutil.rmtree(out, ignore_errors=True)
    r = _search(sched, seed, 200000, best, out, depth)
    return best, r, _newest_schedule(out) if r["failed"] else None


def main(args, seed):
    t0 = time.time()
    shuttle.build_b1()
    os.makedirs(core.SHM, exist_ok=True)
    if args.replay:
        j = json.load(open(args.replay))
        if j.get("mode") == "unwind":
            r = shuttle.run_bin(shuttle.B1_BIN, ["unwind"], timeout=600)
            if r["failed"]:
                print("replay: fails again: %s" % r["message"])
                print("VIOLATION property=%s replay=%s" % (ID, args.replay))
                return 1
            print("replay: no violation reproduced")
            return 0
        r = shuttle.run_bin(shuttle.B1_BIN, ["replay", "--file", j["schedule_file"]] + _bounds_args(j["bounds"]))
        oracle = any(k in r["message"] for k in ("semaphore admitted", "deadlock", "holders counter", "max_steps", "exceeded"))
        if r["failed"] and not oracle:
            print("replay: the persisted schedule does not apply to this build (%s): not reproduced" % r["message"][:120])
            return 0
        if r["failed"]:
            print("replay: fails again: %s" % r["message"])
            print("VIOLATION property=%s replay=%s" % (ID, args.replay))
            return 1
        print("replay: no violation reproduced")
        return 0
    tier = args.tier
    b = BUDGET[tier]
    jobs = []
    for p in range(b["procs"]):
        out = os.path.join(core.SHM, "b1-%d-%d" % (os.getpid(), p))
        shutil.rmtree(out, ignore_errors=True)
        os.makedirs(out)
        if p % 2 == 0:
            jobs.append(("random", seed * 1000 + p, b["random"], out, 0))
        else:
            jobs.append(("pct", seed * 1000 + p, b["pct"], out, 2 + (p // 2) % 4))
    arglists = [["run", "--sched", s, "--seed", sd, "--iters", it, "--out", out, "--depth", d] + _bounds_args(BOUNDS)
                for (s, sd, it, out, d) in jobs]
    results = shuttle.parallel(shuttle.B1_BIN, arglists, workers=args.workers)
    dfs = None
    if tier == "thorough":
        out = os.path.join(core.SHM, "b1-%d-dfs" % os.getpid())
        os.makedirs(out, exist_ok=True)
        dfs = shuttle.run_bin(shuttle.B1_BIN, ["run", "--sched", "dfs", "--iters", 300000, "--out", out,
                                              "--max-threads", 2, "--max-pairs", 1, "--max-permits", 1, "--spurious", 0])
    executions = sum(r["executions"] for r in results)
    rc = 0
    violations = 0
    # a holder that FAILS while holding guards (they are dropped by the unwinding): std primitives, real threads, the
    # outcome does not depend on the interleaving; shuttle cannot run it (it closes a mutex released while panicking)
    unw = shuttle.run_bin(shuttle.B1_BIN, ["unwind"], timeout=600)
    if unw["failed"]:
        if "deadlock" not in unw["message"]:
            raise HarnessError("b1 unwind: %s %s" % (unw["message"], unw.get("stderr_tail", "")[-300:]))
        os.makedirs(REPLAYS, exist_ok=True)
        rp = os.path.join(REPLAYS, "C19-%s-unwind.json" % seed)
        json.dump({"property": ID, "engine": "B1", "seed": seed, "mode": "unwind", "message": unw["message"],
                   "clause": "permits-back-after-holder-failed"}, open(rp, "w"), indent=1)
        print("violation: %s" % unw["message"])
        print("VIOLATION property=%s replay=%s" % (ID, rp))
        rc = 1
        violations += 1
    for (s, sd, it, out, d), r in zip(jobs, results):
        if r["failed"]:
            bounds, r2, sched_file = minimise(s, sd, BOUNDS, d or 3)
            if sched_file is None:      # fall back to the original failing schedule
                bounds, r2, sched_file = BOUNDS, r, _newest_schedule(out)
            os.makedirs(REPLAYS, exist_ok=True)
            dst = os.path.join(REPLAYS, "C19-%s-%s.schedule" % (seed, sd))
            shutil.copyfile(sched_file, dst)
            rp = os.path.join(REPLAYS, "C19-%s-%s.json" % (seed, sd))
            json.dump({"property": ID, "engine": "B1", "seed": seed, "scheduler": s, "scheduler_seed": sd, "bounds": bounds,
                       "schedule_file": dst, "message": r2["message"], "clause": "semaphore-safe-and-live"}, open(rp, "w"), indent=1)
            chk = shuttle.run_bin(shuttle.B1_BIN, ["replay", "--file", dst] + _bounds_args(bounds))
            if chk["failed"]:
                print("violation: %s (scheduler=%s seed=%s bounds=%s)" % (r2["message"], s, sd, bounds))
                print("VIOLATION property=%s replay=%s" % (ID, rp))
                rc = 1
                violations += 1
                break
            raise HarnessError("persisted shuttle schedule did not replay: %s" % dst)
    if dfs is not None and dfs["failed"]:
        if any(k in dfs["message"] for k in ("semaphore admitted", "deadlock", "holders counter", "max_steps", "exceeded")):
            dbounds = {"max_threads": 2, "max_pairs": 1, "max_permits": 1, "spurious": 0}
            sf = _newest_schedule(os.path.join(core.SHM, "b1-%d-dfs" % os.getpid()))
            os.makedirs(REPLAYS, exist_ok=True)
            dst = os.path.join(REPLAYS, "C19-%s-dfs.schedule" % seed)
            shutil.copyfile(sf, dst)
            rp = os.path.join(REPLAYS, "C19-%s-dfs.json" % seed)
            json.dump({"property": ID, "engine": "B1", "seed": seed, "scheduler": "dfs", "bounds": dbounds, "schedule_file": dst,
                       "message": dfs["message"], "clause": "semaphore-safe-and-live"}, open(rp, "w"), indent=1)
            print("violation (DFS): %s" % dfs["message"])
            print("VIOLATION property=%s replay=%s" % (ID, rp))
            rc = 1
            violations += 1
        dfs["note"] = "DFS baseline not usable: " + dfs["message"][:200]
    for (s, sd, it, out, d) in jobs:
        shutil.rmtree(out, ignore_errors=True)
    wall = time.time() - t0
    ev = {
        "property_id": ID, "tier": tier, "seed": seed, "level": LEVEL,
        "coverage": {
            "evaluations": executions,
            "distinct_nontrivial": len({r["scen_hash"] for r in results}),
            "rule": RULE,
            "samples": [{"scheduler": j[0], "scheduler_seed": j[1], "iterations": j[2], "pct_depth": j[4],
                         "executions": r["executions"], "acquisitions": r["acquisitions"], "condvar_waits": r["waits"],
                         "spurious_wakeups_fired": r["spurious_fired"], "guards_released_on_other_thread": r["moved_guards"]}
                        for j, r in list(zip(jobs, results))[:4]],
            "exhaustive": False,
            "schedules_per_hour": int(executions / max(wall, 1e-9) * 3600),
            "simulated_time_covered_s": 0,
            "faults_fired": {"spurious_wakeup": sum(r["spurious_fired"] for r in results),
                             "guard_moved_to_other_thread": sum(r["moved_guards"] for r in results),
                             "holder_failed_while_holding_guards": unw["executions"]},
            "probes": {"acquisitions": sum(r["acquisitions"] for r in results), "condvar_waits": sum(r["waits"] for r in results)},
            "dfs_baseline": None if dfs is None else {"executions": dfs["executions"], "failed": dfs["failed"],
                                                      "note": "shuttle DFS over the 2-thread/1-pair/1-permit scenario, capped at 300000 executions; a cross-check, not the claim"},
            "real_vs_stub": {"semaphore.rs": "real file from /repo (include!), compiled with --cfg fclones_verif_shuttle",
                             "Mutex/Condvar": "shuttle's scheduler-controlled primitives behind a shim that injects spurious wake-ups",
                             "Arc": "std (no scheduling points)", "threads": "shuttle tasks",
                             "failing holder (mode unwind)": "std Mutex/Condvar and real threads, 36 fixed cases (permits x held x guard style x waiter before/after); not schedule-dependent, shuttle cannot run a release during unwinding"},
            "distinct_measure": "distinct scenario-mix hashes over harness processes (per-schedule distinctness is not measured)",
        },
        "assumptions": ASSUMPTIONS, "wall_s": round(wall, 2), "violations": violations,
    }
    os.makedirs(EVIDENCE, exist_ok=True)
    json.dump(ev, open(os.path.join(EVIDENCE, ID + ".json"), "w"), indent=1, sort_keys=True)
    print("%s %s: %d schedules over %d processes, %d violating, %.1fs" % (ID, tier, executions, len(jobs), violations, wall))
    return rc
