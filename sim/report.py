"""Independent parsers for fclones reports (JSON, text, csv, fdupes) and the STFU-8 codec."""
import csv
import io
import json
import re

_ESC = re.compile(r"\\(?:[tnr\\]|x[0-9a-fA-F]{2}|u[0-9a-fA-F]{6}|.|$)", re.S)


class ReportError(Exception):
    pass


def stfu8_decode(s):
    out = bytearray()
    last = 0
    for m in _ESC.finditer(s):
        out += s[last:m.start()].encode("utf-8", "surrogatepass")
        t = m.group(0)
        if t == "\\t":
            out.append(9)
        elif t == "\\n":
            out.append(10)
        elif t == "\\r":
            out.append(13)
        elif t == "\\\\":
            out.append(92)
        elif t.startswith("\\x") and len(t) == 4:
            out.append(int(t[2:], 16))
        elif t.startswith("\\u") and len(t) == 8:
            out += chr(int(t[2:], 16)).encode("utf-8", "surrogatepass")
        else:
            raise ReportError("bad STFU-8 escape %r in %r" % (t, s))
        last = m.end()
    out += s[last:].encode("utf-8", "surrogatepass")
    return bytes(out)


def stfu8_encode(b):
    """Reference encoder (as documented by the stfu8 crate: visible ASCII and valid UTF-8 pass,
    backslash doubled, everything else \\xHH, with \\t \\n \\r short forms)."""
    out = []
    i = 0
    n = len(b)
    while i < n:
        c = b[i]
        if c == 0x5C:
            out.append("\\\\"); i += 1
        elif 0x20 <= c <= 0x7E:
            out.append(chr(c)); i += 1
        elif c < 0x80:
            out.append({9: "\\t", 10: "\\n", 13: "\\r"}.get(c, "\\x%02X" % c)); i += 1
        else:
            # try to decode one UTF-8 scalar
            ln = 2 if c >> 5 == 0b110 else 3 if c >> 4 == 0b1110 else 4 if c >> 3 == 0b11110 else 0
            ok = False
            if ln and i + ln <= n:
                try:
                    ch = b[i:i + ln].decode("utf-8")
                    ok = len(ch) == 1
                except UnicodeDecodeError:
                    ok = False
            if ok:
                out.append(ch); i += ln
            else:
                out.append("\\x%02X" % c); i += 1
    return "".join(out)


class Group:
    __slots__ = ("len", "hash", "paths", "count")

    def __init__(self, ln, h, paths, count=None):
        self.len = ln
        self.hash = h
        self.paths = paths
        self.count = len(paths) if count is None else count

    def __repr__(self):
        return "Group(%d,%s,%r)" % (self.len, self.hash[:8], self.paths)


class Report:
    def __init__(self):
        self.header = {}
        self.groups = []
        self.format = None

    def pathsets(self):
        return sorted(tuple(sorted(g.paths)) for g in self.groups)


def parse_json(data):
    try:
        j = json.loads(data.decode("utf-8"))
    except Exception as e:
        raise ReportError("json: %s" % e)
    r = Report()
    r.format = "json"
    h = j["header"]
    r.header = {
        "version": h["version"],
        "timestamp": h["timestamp"],
        "command": [stfu8_decode(a) for a in h["command"]],
        "base_dir": stfu8_decode(h["base_dir"]),
        "stats": h.get("stats"),
    }
    for g in j["groups"]:
        r.groups.append(Group(g["file_len"], g["file_hash"], [stfu8_decode(p) for p in g["files"]]))
    return r


_GH = re.compile(r"^([a-f0-9]+), ([0-9]+) B \([^*]*\) \* ([0-9]+):$")


def parse_text(data):
    """Parse what `group` wrote in the default format.  Lines are split on \\n only."""
    r = Report()
    r.format = "text"
    text = data.decode("utf-8")  # report text itself is always valid UTF-8 (STFU-8)
    lines = text.split("\n")
    if lines and lines[-1] == "":
        lines.pop()
    i = 0
    hdr = {}
    while i < len(lines) and lines[i].startswith("#"):
        l = lines[i]
        m = re.match(r"^# Report by fclones (.*)$", l)
        if m: hdr["version"] = m.group(1)
        m = re.match(r"^# Timestamp: (.*)$", l)
        if m: hdr["timestamp"] = m.group(1)
        m = re.match(r"^# Command: (.*)$", l)
        if m: hdr["command_line"] = m.group(1)
        m = re.match(r"^# Base dir: (.*)$", l)
        if m: hdr["base_dir"] = stfu8_decode(m.group(1))
        m = re.match(r"^# Total: ([0-9]+) B \([^)]*\) in ([0-9]+) files in ([0-9]+) groups$", l)
        if m:
            hdr.setdefault("stats", {}).update(total_file_size=int(m.group(1)), total_file_count=int(m.group(2)), group_count=int(m.group(3)))
        m = re.match(r"^# Redundant: ([0-9]+) B \([^)]*\) in ([0-9]+) files$", l)
        if m:
            hdr.setdefault("stats", {}).update(redundant_file_size=int(m.group(1)), redundant_file_count=int(m.group(2)))
        m = re.match(r"^# Missing: ([0-9]+) B \([^)]*\) in ([0-9]+) files$", l)
        if m:
            hdr.setdefault("stats", {}).update(missing_file_size=int(m.group(1)), missing_file_count=int(m.group(2)))
        i += 1
    r.header = hdr
    while i < len(lines):
        m = _GH.match(lines[i])
        if not m:
            raise ReportError("text: bad group header %r" % lines[i])
        cnt = int(m.group(3))
        paths = []
        i += 1
        for _ in range(cnt):
            if i >= len(lines) or not lines[i].startswith("    "):
                raise ReportError("text: path line expected at %d" % i)
            paths.append(stfu8_decode(lines[i][4:]))
            i += 1
        r.groups.append(Group(int(m.group(2)), m.group(1), paths, cnt))
    return r


def parse_csv(data):
    r = Report()
    r.format = "csv"
    rows = list(csv.reader(io.StringIO(data.decode("utf-8"), newline="")))
    if not rows or rows[0] != ["size", "hash", "count", "files"]:
        raise ReportError("csv: bad header row %r" % (rows[:1],))
    for row in rows[1:]:
        r.groups.append(Group(int(row[0]), row[1], [stfu8_decode(p) for p in row[3:]], int(row[2])))
    return r


def parse_fdupes(data):
    r = Report()
    r.format = "fdupes"
    text = data.decode("utf-8")
    cur = []
    for l in text.split("\n"):
        if l == "":
            if cur:
                r.groups.append(Group(-1, "", cur))
            cur = []
        else:
            cur.append(stfu8_decode(l))
    if cur:
        r.groups.append(Group(-1, "", cur))
    return r


def parse_any(data):
    if data.lstrip()[:1] == b"{":
        return parse_json(data)
    return parse_text(data)
