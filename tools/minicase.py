#!/usr/bin/env python3
"""tools/minicase.py C04 thorough 9130 -> minimise one generated case and write a replay file"""
import sys, os, json, itertools
sys.path.insert(0, os.path.dirname(os.path.dirname(os.path.abspath(__file__))))
from sim import runner, core
pid, tier, idx = sys.argv[1], sys.argv[2], int(sys.argv[3])
core.ensure_built()
prop = runner.load_prop(pid)
case = next(itertools.islice(prop.gen_cases(tier, runner.DEFAULT_SEED), idx, None))
out = prop.run_case(case)
print("violations:", [v["clause"] for v in out["violations"]])
if out["violations"]:
    v = out["violations"][0]
    small, steps = runner.minimise(prop, case, v["clause"], 120, {"findings": []})
    out2 = prop.run_case(small)
    v2 = [x for x in out2["violations"] if x["clause"] == v["clause"]][0]
    path = runner.write_replay(prop, runner.DEFAULT_SEED, small, v2, steps, "m")
    print(path, "steps", steps)
    print(json.dumps(small)[:3000])
    print(v2["detail"][:3000])
