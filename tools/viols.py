#!/usr/bin/env python3
"""debug helper: tools/viols.py C04 quick [N] -> list every violating case with its info"""
import sys, os, json, multiprocessing as mp
sys.path.insert(0, os.path.dirname(os.path.dirname(os.path.abspath(__file__))))
from sim import runner, core
def one(a):
    pid, idx, case = a
    prop = runner.load_prop(pid)
    try:
        out = prop.run_case(case)
    except Exception as e:
        return idx, [{"clause":"EXC","detail":repr(e)}], {}
    return idx, out["violations"], out.get("info")
if __name__ == "__main__":
    pid, tier = sys.argv[1], sys.argv[2]
    n = int(sys.argv[3]) if len(sys.argv) > 3 else None
    width = int(os.environ.get("W", "400"))
    core.ensure_built()
    prop = runner.load_prop(pid)
    known = runner.load_known()
    cases = []
    for c in prop.gen_cases(tier, int(os.environ.get("VERIF_SEED", runner.DEFAULT_SEED))):
        cases.append(c)
        if n and len(cases) >= n: break
    with mp.Pool(16) as pool:
        for idx, v, info in pool.imap(one, [(pid, i, c) for i, c in enumerate(cases)]):
            for x in v:
                k = runner.classify(prop, cases[idx], x, known)
                print(idx, "KNOWN:"+k["id"] if k else "NEW", x["clause"], json.dumps(info)[:300], "|", x["detail"][:width].replace("\n"," "))
