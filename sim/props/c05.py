"""C05 - replacing a file is atomic with respect to crashes and I/O errors.

Fault enumeration: for every scenario world x dedupe operation, the sequence of mutating calls
of the fault-free run is recorded (serial mode); then for every position k: crash-before,
crash-after, and errno in {EIO, ENOSPC, EXDEV, EPERM, EOPNOTSUPP, EINTR} at k; and pairs (k, k') where
k' is one of the next mutating calls issued after the failure of k (roll-back / continuation).
"""
import os
import random

from .. import core, ops
from ..core import T0_NS, b2s, s2b, rule
from ..world import World, inventory, read_through, contents_of, inv_brief

ID = "C05"
LEVEL = "fault_enumeration"
ERRNOS = ["EIO", "ENOSPC", "EXDEV", "EPERM", "EOPNOTSUPP", "EINTR"]
BUDGET = {"quick": {"wall_s": 420}, "thorough": {"wall_s": 3000}}
EXHAUSTIVE = {"quick": True, "thorough": True}
RULE = ("scenario worlds x {remove, link, link --soft, dedupe, move} x every position k of the recorded "
        "mutating-call sequence x {crash-before, crash-after, 5 errnos}, plus pairs (k, next 1..2 mutating "
        "calls after the failure); a case is non-trivial when the injected action actually fired; distinct = "
        "distinct trace signatures")
ASSUMPTIONS = [
    "kill model: every completed system call is durable, nothing later happens (process kill, not power loss)",
    "serial mode (RAYON_NUM_THREADS=1) so that the global position k is a function of the input",
    "FICLONE is an atomic stub; a clone torn in the middle by the kernel is not modelled",
    "'untouched' = same inode, bytes and mtime (DESIGN 4.x)",
]


def _c(fam, n=600, flips=()):
    return {"fam": fam, "len": n, "flips": [list(f) for f in flips]}


def scenarios(tier):
    sc = []
    # S1 plain groups
    w = World()
    w.add_file("r/a", _c(1))
    w.add_file("r/b", _c(1))
    w.add_file("r/d/c", _c(1))
    w.add_file("r/u", _c(2))
    w.add_file("r/e", _c(3, 90))
    w.add_file("r/d/f", _c(3, 90))
    w.add_dir("T")
    sc.append({"name": "plain", "world": w.to_json(), "roots": ["r"], "gargs": []})
    # S2 hard-link subgroups
    w = World()
    w.add_file("r/a", _c(4))
    w.add_hardlink("r/a2", "r/a")
    w.add_file("r/b", _c(4))
    w.add_hardlink("r/d/b2", "r/b")
    w.add_file("r/c", _c(4))
    w.add_dir("T")
    sc.append({"name": "hardlinks", "world": w.to_json(), "roots": ["r"], "gargs": []})
    # S3 pre-existing temp-like sibling and a hostile name
    w = World()
    w.add_file("r/a", _c(5))
    w.add_file("r/b", _c(5))
    w.add_file("r/b.AAAAAAAAAAAAAAAAAAAAAAAA", _c(6, 50))
    w.add_file("r/x y'z", _c(5))
    w.add_dir("T")
    sc.append({"name": "tempsibling", "world": w.to_json(), "roots": ["r"], "gargs": []})
    # S3b target on a second simulated device: move goes through copy + remove (several writes)
    w = World()
    w.add_file("r/a", _c(15, 70000))
    w.add_file("r/b", _c(15, 70000))
    w.add_dir("T")
    sc.append({"name": "seconddev-small", "world": w.to_json(), "roots": ["r"], "gargs": [], "dev2": "T", "ops": ["move"]})
    # S3b a symbolic link as a DROPPED member (-S; its target lies outside the scanned tree, so link and the regular
    # copy are two replicas): replacing a link must be as safe as replacing a file
    w = World()
    w.add_file("r/a", _c(16))
    w.add_file("o/x", _c(16))
    w.add_symlink("r/z/s", "../../o/x")
    w.add_dir("T")
    sc.append({"name": "symlink-dropped", "world": w.to_json(), "roots": ["r"], "gargs": ["-S"], "ops": ["link", "softlink", "remove"]})
    if tier == "thorough":
        # S4 symlink members reported with -S
        w = World()
        w.add_file("r/a", _c(7))
        w.add_file("r/b", _c(7))
        w.add_symlink("r/s", "a")
        w.add_file("r/q/c", _c(7))
        w.add_dir("T")
        sc.append({"name": "symlinks", "world": w.to_json(), "roots": ["r"], "gargs": ["-S"]})
        # S5 two roots with --isolate
        w = World()
        w.add_file("r1/a", _c(8))
        w.add_file("r1/b", _c(8))
        w.add_file("r2/a", _c(8))
        w.add_file("r2/d/b", _c(8))
        w.add_dir("T")
        sc.append({"name": "isolate", "world": w.to_json(), "roots": ["r1", "r2"], "gargs": ["--isolate"]})
        # S6 target on a second simulated device (move copies), larger file (several writes)
        w = World()
        w.add_file("r/a", _c(9, 200000))
        w.add_file("r/b", _c(9, 200000))
        w.add_file("r/c", _c(10, 10))
        w.add_file("r/d", _c(10, 10))
        w.add_dir("T")
        sc.append({"name": "seconddev", "world": w.to_json(), "roots": ["r"], "gargs": [], "dev2": "T"})
        # S7 three groups, -n 2
        w = World()
        for i in range(4):
            w.add_file("r/g%d" % i, _c(11))
        for i in range(3):
            w.add_file("r/h%d" % i, _c(12, 40))
        w.add_dir("T")
        sc.append({"name": "rf2", "world": w.to_json(), "roots": ["r"], "gargs": [], "dargs": ["-n", "2"]})
        # S8 empty-ish and zero-length duplicates
        w = World()
        w.add_file("r/z1", _c(13, 0))
        w.add_file("r/z2", _c(13, 0))
        w.add_file("r/o1", _c(14, 1))
        w.add_file("r/o2", _c(14, 1))
        w.add_dir("T")
        sc.append({"name": "tiny", "world": w.to_json(), "roots": ["r"], "gargs": ["--min", "0"]})
    return sc


def _env(rd, sc):
    env = {}
    if sc.get("dev2"):
        env["FCLONES_VERIF_DEVICES"] = "/=ssd:simroot;%s=ssd:simdisk2" % os.path.join(rd.world, sc["dev2"])
    else:
        env["FCLONES_VERIF_DEVICES"] = "/=ssd:simroot"
    return env


def _setup(rd, sc):
    World.from_json(sc["world"]).materialise(rd.world)
    roots = [os.path.join(rd.world, r) for r in sc["roots"]]
    g = ops.group(rd, roots, sc.get("gargs", []) + ["--threads", "1"], env=_env(rd, sc), now_ns=T0_NS, seed=7)
    if g.rc != 0:
        raise core.HarnessError("group failed in C05 setup: %r" % g.err[-500:])
    return g


def _dedupe(rd, sc, op, report, plan):
    return ops.dedupe(rd, op, report, extra=sc.get("dargs", []), target=os.path.join(rd.world, "T"),
                      plan=plan, env=_env(rd, sc), now_ns=T0_NS + 60 * 10**9, seed=11, threads_env=1)


def record(sc, op, plan=None):
    """fault-free (or given-plan) run; returns (mutating events, dropset, before, after)"""
    with core.RunDir("c05rec") as rd:
        g = _setup(rd, sc)
        before = inventory(rd.world)
        res = _dedupe(rd, sc, op, g.out, plan or [])
        after = inventory(rd.world)
        mut = [(e.mseq, e.kind, b2s(ops.relw(rd, e.path) or e.path)) for e in res.trace.mutating()]
        return mut, res


def gen_cases(tier, seed):
    for sc in scenarios(tier):
        for op in sc.get("ops", ops.OPS):
            mut, res = record(sc, op)
            if res.rc != 0:
                raise core.HarnessError("fault-free %s failed in scenario %s: %r" % (op, sc["name"], res.err[-400:]))
            m = len(mut)
            for k in range(m):
                acts = ["crashb", "crasha"] + ["errno:" + e for e in ERRNOS]
                for a in acts:
                    yield {"sc": sc, "op": op, "faults": [{"mseq": k, "act": a}], "what": mut[k][1] + " " + mut[k][2]}
                # pairs: failure at k, then failure at one of the next two mutating calls
                pair_errnos = ["EIO"] if tier == "quick" else ["EIO", "EPERM"]
                for e1 in pair_errnos:
                    for d in (1, 2):
                        yield {"sc": sc, "op": op,
                               "faults": [{"mseq": k, "act": "errno:" + e1}, {"mseq": k + d, "act": "errno:EIO"}],
                               "what": mut[k][1] + " " + mut[k][2] + " +%d" % d}
                        if tier == "thorough":
                            yield {"sc": sc, "op": op,
                                   "faults": [{"mseq": k, "act": "errno:" + e1}, {"mseq": k + d, "act": "crashb"}],
                                   "what": mut[k][1] + " " + mut[k][2] + " +%d crash" % d}


def shrink(case):
    # drop a fault; drop files not needed; simplify scenario
    if len(case["faults"]) > 1:
        for i in range(len(case["faults"])):
            c = dict(case)
            c["faults"] = case["faults"][:i] + case["faults"][i + 1:]
            yield c
    ents = case["sc"]["world"]["entries"]
    for i, e in enumerate(ents):
        if e["t"] == "d":
            continue
        # do not drop link targets
        if any(o.get("to") == e["p"] and o["t"] == "h" for o in ents):
            continue
        c = dict(case)
        c["sc"] = dict(case["sc"])
        c["sc"]["world"] = {"entries": ents[:i] + ents[i + 1:]}
        yield c


def _fully_processed(op, rel, orig, before, after, rd, dropset_info):
    """is path `rel` in the state the operation produces when it succeeds?"""
    a = after.get(rel)
    if op == "remove":
        return a is None
    if op == "move":
        tgt = b"T" + rd.wb() + b"/" + rel
        t = after.get(tgt)
        return a is None and t is not None and t.type == orig.type and (
            (t.type == "f" and t.sha == orig.sha) or (t.type == "l"))
    if op == "link":
        if orig.type == "l":        # a symbolic link listed as a member (-S) becomes a hard link of the retained file
            return a is not None and a.type == "f" and a.nlink >= 2
        return a is not None and a.type == "f" and a.ident != orig.ident and a.sha == orig.sha and a.nlink >= 2
    if op == "softlink":
        if orig.type == "l":        # ... or a link to the retained file instead of its former target
            return a is not None and a.type == "l" and a.target != orig.target
        return a is not None and a.type == "l"
    if op == "dedupe":
        return None  # invisible to an inventory; decided from the trace
    return False


def run_case(case):
    sc, op = case["sc"], case["op"]
    viol = []
    with core.RunDir("c05") as rd:
        g = _setup(rd, sc)
        before = inventory(rd.world)
        orig_bytes = {}
        for p, e in before.items():
            if e.type in ("f", "l"):
                orig_bytes[p] = read_through(rd.world, p)
        plan = [rule(kind="mut", mseq=f["mseq"], act=f["act"]) for f in case["faults"]]
        res = _dedupe(rd, sc, op, g.out, plan)
        after = inventory(rd.world)
        fired = res.trace.fired()
        crashed = res.crashed()
        # which paths does the operation drop?  the fault-free twin run decides (same seed, serial)
        with core.RunDir("c05twin") as rd2:
            g2 = _setup(rd2, sc)
            b2 = inventory(rd2.world)
            r2 = _dedupe(rd2, sc, op, g2.out, [])
            a2 = inventory(rd2.world)
            dropset = set()
            for p in b2:
                if b2[p].type in ("f", "l") and (p not in a2 or not b2[p].untouched(a2[p])):
                    dropset.add(p)
            if op == "dedupe":
                for e in r2.trace.main("ficlone"):
                    if e.ret == 0:
                        rel = ops.relw(rd2, e.path)
                        if rel is not None and rel in b2:
                            dropset.add(rel)
            clean_processed = ops.processed_count(r2)

        def V(clause, detail):
            viol.append({"clause": clause, "detail": "%s | op=%s faults=%s what=%s | stderr=%s | before=%s | after=%s" % (
                detail, op, case["faults"], case.get("what"), res.err.decode("utf-8", "replace")[-600:],
                inv_brief(before), inv_brief(after))})

        if res.timed_out:
            V("terminates", "dedupe command hung")
        if res.panicked() and not crashed:
            V("no-panic", "dedupe command panicked")

        # 1. nothing outside the drop set is ever touched (retained files, unrelated files)
        for p, e in before.items():
            if e.type == "d" or p in dropset:
                continue
            a = after.get(p)
            if a is None or not e.untouched(a):
                V("retained-untouched", "path %r outside the drop set changed: %r -> %r" % (b2s(p), e, a))
        # 2. content conservation
        lost = contents_of(before) - contents_of(after)
        if lost:
            V("content-conserved", "contents lost: %s" % sorted(x[:8] for x in lost))
        # 3. per processed path
        in_processed_state = set()
        n_failed = len([e for e in fired if e.act == 'errno'])
        for p in sorted(dropset):
            e = before[p]
            b = orig_bytes.get(p)
            a = after.get(p)
            now = read_through(rd.world, p)
            # "a temporary sibling name in the same directory": any entry of that directory that did not
            # exist before (the 24-character suffix fclones uses today is not part of the property)
            d_ = os.path.dirname(p)
            temps = [t for t in after if t not in before and os.path.dirname(t) == d_ and t != p]
            temp_ok = [t for t in temps if after[t].type in ("f", "l") and read_through(rd.world, t) == b]
            at_orig = now is not None and now == b
            gone_ok = False
            if op == "remove":
                gone_ok = a is None and e.sha in contents_of(after) if e.type == "f" else a is None
            if op == "move":
                tgt = b"T" + rd.wb() + b"/" + p
                t = after.get(tgt)
                gone_ok = a is None and t is not None and ((t.type == "f" and t.sha == e.sha) or (t.type == "l" and e.type == "l"))
            if crashed or n_failed >= 2:
                if not (at_orig or temp_ok or gone_ok):
                    V("crash-atomic", "after crash path %r neither holds its bytes, nor a temp sibling, nor is completely replaced (now=%r temps=%r)" % (b2s(p), a, [b2s(t) for t in temps]))
            else:
                if not (at_orig or gone_ok):
                    V("error-restored", "after failed call path %r does not read back its original bytes (now=%r temps=%r)" % (b2s(p), a, [b2s(t) for t in temps]))
            fp = _fully_processed(op, p, e, before, after, rd, None)
            if fp:
                in_processed_state.add(p)
        if op == "dedupe":
            for ev in res.trace.main("ficlone"):
                rel = ops.relw(rd, ev.path)
                if ev.ret == 0 and rel in dropset:
                    in_processed_state.add(rel)
        # 4. no-crash: warning + accounting
        if not crashed and not res.timed_out:
            failed = [e for e in fired if e.act in ("errno",)]
            n = ops.processed_count(res)
            if failed:
                unprocessed = [p for p in dropset if p not in in_processed_state]
                leftovers = [t for t in after if t not in before and after[t].type != "d" and not t.startswith(b"T/")
                             and os.path.dirname(t) in {os.path.dirname(p) for p in dropset}]
                if (unprocessed or leftovers) and not res.warnings() and not res.errors():
                    V("warning-logged", "call failed (%s), %s not processed, temp leftovers %s, but no warning was logged" % (
                        [e.brief() for e in failed], [b2s(x) for x in unprocessed], [b2s(x) for x in leftovers]))
                if n is not None:
                    touched = set()
                    for fe in failed:
                        for pp in (fe.path, fe.path2):
                            rel = ops.relw(rd, pp) if pp else None
                            if rel is None:
                                continue
                            own = ops.temp_owner(rel, set(before))
                            if own is not None:
                                rel = own
                            if rel in dropset:
                                touched.add(rel)
                            if rel.startswith(b"T" + rd.wb()):
                                src = rel[len(b"T" + rd.wb()) + 1:]
                                # the failed call concerned a move target or one of its parents
                                for d in dropset:
                                    if d == src or d.startswith(src + b"/"):
                                        touched.add(d)
                    hi = len(in_processed_state)
                    lo = len(in_processed_state - touched)
                    if not (lo <= n <= hi):
                        V("processed-count", "Processed %d but %d..%d paths are in the processed state (%s); failed=%s" % (
                            n, lo, hi, sorted(b2s(x) for x in in_processed_state), [e.brief() for e in failed]))
            else:
                if n is not None and clean_processed is not None and n != clean_processed:
                    V("processed-count", "no fault fired but Processed %d != fault-free %d" % (n, clean_processed))
        verdict = ",".join(sorted({v["clause"] for v in viol}))
        return {
            "violations": viol,
            "nontrivial": bool(fired),
            "sig": ops.trace_sig(rd, [res.trace], verdict),
            "faults": ops.fault_counts([res.trace]),
            "probes": {
                "crashed": int(crashed),
                "temp_sibling_observed_after_crash": int(crashed and any(ops.temp_owner(t, set(before)) in dropset for t in after if t not in before)),
                "rollback_executed": int(any(e.kind == "rename" and e.ret == 0 and ops.temp_owner(ops.relw(rd, e.path) or b"", set(before)) is not None for e in res.trace.main("rename"))),
                "copy_fallback_taken": int(op == "move" and any(e.kind in ("copyrange", "sendfile") for e in res.trace.mutating())),
                "second_fault_fired": int(len(fired) >= 2),
            },
            "sim_ns": 60 * 10**9,
            "invocations": 4,
            "info": {"scenario": sc["name"], "op": op, "faults": case["faults"], "what": case.get("what"),
                     "fired": [e.brief() for e in fired][:4], "rc": res.rc},
        }
