"""C03 - every duplicate among the scanned files is reported, exactly once.

Engine A half: the report of the real binary equals the reference partition of the scanned set
(model.expected_groups) under every drawn configuration / pool setting / short-read schedule."""
import os
import random

from .. import core, ops, gen, xform, report, model
from ..core import T0_NS, b2s, s2b, rule, stable_hash
from ..world import World

ID = "C03"
LEVEL = "exploration"
ENGINE_B2 = True
BUDGET = {"quick": {"n": 800, "wall_s": 400}, "thorough": {"n": 30000, "wall_s": 3300}}
RULE = ("per case: seeded configuration (hash fn, device kind, pools, prefix/suffix sizes, knob overrides, cache, "
        "transform in ~20%) x replication filter drawn from {default, --rf-over k, --rf-under k, --unique} x world of "
        "near-duplicate families spread over 1..3 roots (overlapping / repeated roots in ~25%), hard links; fault "
        "mode none/short reads/delays; oracle: set of reported path sets == reference partition filtered by the "
        "documented replica rule; no path twice; no unselected path; no 'Failed to' warning for a readable file. "
        "non-trivial = the expected report has >= 1 group; distinct = distinct trace signatures")
ASSUMPTIONS = [
    "selection fixed to 'every non-hidden regular file under the roots' (symlinks ignored, no ignore files); C09 decides selection",
    "hash collisions outside the claim",
]


def gen_case(seed, i):
    rng = random.Random(stable_hash(seed, ID, i))
    cfg = gen.gen_cfg(rng)
    if rng.random() < 0.2:
        t = rng.choice([x for x in xform.TRANSFORMS if "--in-place" not in x[1]])
        cfg["transform"] = t[0]
        cfg["transform_flags"] = list(t[1])
    nroots = rng.choice([1, 1, 2, 3])
    # every 8th world is "wide": one or two families with up to 48 files, i.e. dozens of entries of one size
    # (batching / chunking by pool size only shows on classes larger than a batch), with overlapping input paths
    wide = rng.random() < 0.125
    world, roots = gen.gen_world(rng, cfg, nroots=nroots, hostile=rng.random() < 0.4,
                                 max_files=48 if wide else rng.choice([6, 12, 24]),
                                 families=rng.choice([1, 2]) if wide else rng.randint(1, 5), wide=wide)
    if i % 40 == 7 and not cfg.get("transform"):
        # one case in forty is BIG: more than a thousand tiny files (one class of 1025..1300 copies and a few
        # hundred pairs) - containers, chunks and batches of the pipeline have sizes of their own
        base_ = roots[0]
        n_one = rng.choice([1025, 1100, 1300])
        for k in range(n_one):
            world.entries.append({"t": "f", "p": "%s/big/c%d/x%d" % (base_, k % 7, k), "c": {"fam": 700, "len": 3, "flips": []}})
        for k in range(rng.choice([300, 600])):
            for side in ("p", "q"):
                world.entries.append({"t": "f", "p": "%s/big/%s%d/y%d" % (roots[-1], side, k % 5, k), "c": {"fam": 1000 + k, "len": 2 + k % 50, "flips": []}})
    dev2 = None
    if nroots >= 2 and not cfg.get("transform") and rng.random() < 0.15:
        # the last input path lies on a SECOND device of another kind (device-pin hook), shipped constants (no knob
        # overrides, which would level the per-device prefix lengths), and classes that span the two devices with
        # one or two members on either side, longer than any per-device minimum prefix
        dev2 = roots[-1]
        cfg["knobs"] = {}
        cfg["kind"], cfg["kind2"] = rng.choice([("ssd", "hdd"), ("hdd", "ssd"), ("unknown", "hdd"), ("hdd", "unknown"), ("ssd", "unknown")])
        for k_, (n_, na, nb) in enumerate([(20000, 1, 1), (40000, 2, 1), (70000, 1, 2)]):
            for j in range(na):
                world.entries.append({"t": "f", "p": "%s/xd%d_%d" % (roots[0], k_, j), "c": {"fam": 800 + k_, "len": n_, "flips": []}})
            for j in range(nb):
                world.entries.append({"t": "f", "p": "%s/xd%d_%d" % (roots[-1], k_, j + 5), "c": {"fam": 800 + k_, "len": n_, "flips": []}})
    if cfg.get("transform"):
        cfg["cache"] = rng.random() < 0.5          # warm-cache runs matter most with transforms
        for e in world.entries:
            if e["t"] == "f":
                e["c"]["text"] = 1
        # members of one transformed class with DIFFERENT raw sizes: same family, longer file
        # (a family stream of length n is a prefix of the stream of length m > n)
        extra = []
        for e in world.entries:
            if e["t"] == "f" and not e["c"].get("flips") and rng.random() < 0.4 and len(extra) < 4 \
                    and len(e["p"].rsplit("/", 1)[-1]) < 240:
                c2 = dict(e["c"]); c2["len"] = e["c"]["len"] + rng.choice([1, 3, 50])
                extra.append({"t": "f", "p": e["p"] + ".longer%d" % len(extra), "c": c2, "mt": e.get("mt")})
        world.entries += extra
    rootargs = list(roots)
    r = rng.random()
    if wide:
        r = 0.05 + 0.2 * rng.random()                  # repeated or overlapping input path
    at = rng.randint(0, len(rootargs))                 # before, between or after the other input paths
    if r < 0.1:
        rootargs.insert(at, rng.choice(roots))         # repeated root
    elif r < 0.25:
        subs = [e["p"] for e in world.entries if e["t"] == "d" and "/" in e["p"]]
        if subs:
            rootargs.insert(at, rng.choice(subs))      # overlapping root (inner one first or last)
    elif r < 0.3:
        fs = [e["p"] for e in world.entries if e["t"] == "f"]
        if fs:
            rootargs.insert(at, rng.choice(fs))        # a file given as a root as well
    filt = {}
    r = rng.random()
    if r < 0.2:
        filt["rf_over"] = rng.choice([0, 1, 2, 3])
    elif r < 0.35:
        filt["rf_under"] = rng.choice([1, 2, 3, 4])
    elif r < 0.5:
        filt["unique"] = True
    gflags = []
    if rng.random() < 0.2:
        gflags += ["--min", "0"]
    if rng.random() < 0.15:
        gflags += ["-H"]
    # "foreign": the files belong to another user - the kernel then refuses O_NOATIME (EPERM), nothing else
    fm = rng.choice(["none", "none", "short", "delay", "foreign"])
    return {"i": i, "cfg": cfg, "world": world.to_json(), "roots": rootargs, "filter": filt, "gflags": gflags, "dev2": dev2,
            "fault": fm, "seam_seed": rng.randint(1, 10**9)}


def gen_cases(tier, seed):
    for i in range(BUDGET[tier]["n"]):
        yield gen_case(seed, i)


def shrink(case):
    ents = case["world"]["entries"]
    for i, e in enumerate(ents):
        if e["t"] == "d":
            continue
        if any(o.get("to") == e["p"] and o["t"] == "h" for o in ents):
            continue
        if e["p"] in case["roots"]:
            continue
        c = dict(case)
        c["world"] = {"entries": ents[:i] + ents[i + 1:]}
        yield c
    if len(case["roots"]) > 1:
        for i in range(len(case["roots"])):
            c = dict(case); c["roots"] = case["roots"][:i] + case["roots"][i + 1:]; yield c
    if case["fault"] != "none":
        c = dict(case); c["fault"] = "none"; yield c
    if case["gflags"]:
        c = dict(case); c["gflags"] = []; yield c
    cfg = case["cfg"]
    for k, v in (("threads", ["1"]), ("cache", False), ("hash_fn", "metro"), ("transform", None)):
        if cfg.get(k) != v:
            c = dict(case); c["cfg"] = dict(cfg); c["cfg"][k] = v; yield c


def filter_args(f):
    a = []
    if "rf_over" in f:
        a += ["--rf-over", str(f["rf_over"])]
    if "rf_under" in f:
        a += ["--rf-under", str(f["rf_under"])]
    if f.get("unique"):
        a += ["--unique"]
    return a


def plan_for(case, rd):
    if case["fault"] == "short":
        return [rule(kind="read", act="shortrnd", prefix=rd.world, count="inf", proc="any")]
    if case["fault"] == "delay":
        return [rule(kind="open", act="delay:300", prefix=rd.world, count=20000),
                rule(kind="read", act="delay:200", prefix=rd.world, count=30000)]     # bounded: 6 s of injected delay at most
    if case["fault"] == "foreign":
        return [rule(kind="noatime", act="errno:EPERM", prefix=os.path.join(rd.world, case["roots"][case["seam_seed"] % len(case["roots"])]) if case["seam_seed"] % 3 else rd.world,
                     count="inf", proc="any")]
    return []


def expected(case, rd):
    cfg = case["cfg"]
    roots = [os.path.join(rd.wb(), s2b(r)) for r in case["roots"]]
    min_size = 0 if "--min" in case["gflags"] else 1
    sel = model.scan(roots, min_size=min_size)
    tf = None
    if cfg.get("transform"):
        tf = lambda p: xform.run_transform(cfg["transform"], cfg.get("transform_flags", []), p, rd.scratch)
    f = case["filter"]
    keys = model.content_keys(sel, tf)
    # files the reference transform fails on: fclones must leave them out WITH a warning
    unt = [p for p, k in keys.items() if k is None] if tf else []
    return sel, unt, model.expected_groups(sel, transform=tf, match_links="-H" in case["gflags"], keys=keys,
                                      rf_over=f.get("rf_over"), rf_under=f.get("rf_under"), unique=f.get("unique", False))


def compare(exp, rep, sel, viol, tag):
    got = rep.pathsets()
    seen = {}
    for g in rep.groups:
        for p in g.paths:
            seen[p] = seen.get(p, 0) + 1
    dup = [p for p, n in seen.items() if n > 1]
    if dup:
        viol.append({"clause": "no-path-twice", "detail": "%s: listed more than once: %s" % (tag, [b2s(p) for p in dup])})
    alien = [p for p in seen if p not in sel]
    if alien:
        viol.append({"clause": "only-selected-paths", "detail": "%s: reported but not selected by the scan: %s" % (tag, [b2s(p) for p in alien])})
    if got != exp:
        missing = [g for g in exp if g not in got]
        extra = [g for g in got if g not in exp]
        viol.append({"clause": "partition-equals-model", "detail": "%s: expected-but-missing groups %s; unexpected groups %s" % (
            tag, [[b2s(p) for p in g] for g in missing][:6], [[b2s(p) for p in g] for g in extra][:6])})


def run_case(case):
    cfg = case["cfg"]
    viol = []
    with core.RunDir("c03") as rd:
        World.from_json(case["world"]).materialise(rd.world)
        roots = [os.path.join(rd.world.encode(), s2b(r)) for r in case["roots"]]
        args = gen.cfg_args(cfg) + filter_args(case["filter"]) + case["gflags"] + ["-f", "json"]
        env = gen.cfg_env(cfg, rd, case.get("dev2"))
        sel, unt, exp = expected(case, rd)
        traces = []
        n_inv = 0
        for run in range(2 if cfg.get("cache") else 1):
            res = ops.group(rd, roots, args, plan=plan_for(case, rd), env=env, seed=case["seam_seed"] + run,
                            now_ns=T0_NS + run * 5 * 10**9)
            n_inv += 1
            traces.append(res.trace)
            tag = "run%d" % (run + 1)
            if res.timed_out:
                viol.append({"clause": "terminates", "detail": tag + ": group hung"})
                break
            if res.rc != 0:
                viol.append({"clause": "group-succeeds", "detail": "%s: rc=%s %s" % (tag, res.rc, res.err.decode("utf-8", "replace")[-600:])})
                break
            try:
                rep = report.parse_json(res.out)
            except report.ReportError as e:
                viol.append({"clause": "report-parses", "detail": "%s: %s" % (tag, e)})
                break
            compare(exp, rep, sel, viol, tag)
            # warnings print names raw or escaped; a warning that names a file the reference transform
            # fails on as well is the required one, not a wrong one
            def names(p):
                return p.decode("utf-8", "replace") in l or report.stfu8_encode(p) in l or report.stfu8_encode(os.path.basename(p)) in l
            bad = []
            for l in res.warnings():
                if "Failed to" in l and not any(names(p) for p in unt):
                    bad.append(l)
            if bad:
                viol.append({"clause": "readable-not-dropped", "detail": "%s: warnings for readable files: %s" % (tag, bad[:3])})
        for v in viol:
            v["detail"] += " | roots=%s filter=%s gflags=%s fault=%s cfg=%s" % (case["roots"], case["filter"], case["gflags"], case["fault"], {k: cfg.get(k) for k in ("hash_fn", "kind", "knobs", "threads", "cache", "transform", "max_prefix_size", "max_suffix_size")})
        return {
            "violations": viol,
            "nontrivial": len(exp) > 0,
            "sig": ops.trace_sig(rd, traces, ",".join(sorted({v["clause"] for v in viol}))),
            "faults": ops.fault_counts(traces),
            "probes": {"expected_groups": len(exp), "selected_files": len(sel),
                       "filter_" + (",".join(sorted(case["filter"])) or "default"): 1,
                       "transform_runs": int(bool(cfg.get("transform"))), "cache_runs": int(bool(cfg.get("cache")))},
            "sim_ns": (n_inv - 1) * 5 * 10**9,
            "invocations": n_inv,
            "info": {"roots": case["roots"], "filter": case["filter"], "expected_groups": len(exp), "selected": len(sel)},
        }
