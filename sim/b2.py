"""Engine B2 batch: the real group_files/rehash pipeline under shuttle (used by C13 and C03)."""
import json
import os
import shutil

from . import core, shuttle
from .core import HarnessError

SCENARIOS = 20
BUDGET = {"quick": {"iters": 3000, "procs": 20}, "thorough": {"iters": 100000, "procs": 40}}
ORACLE_MARKERS = ("partition differs", "result depends on the schedule", "deadlock", "max_steps", "exceeded", "group_files failed")


def run(tier, seed, pid, replays_dir, workers=16):
    """-> (summary dict, list of violation dicts [{clause, message, replay}])"""
    shuttle.build_b2()
    b = BUDGET[tier]
    jobs = []
    for p in range(b["procs"]):
        k = p % SCENARIOS
        out = os.path.join(core.SHM, "b2-%d-%d" % (os.getpid(), p))
        shutil.rmtree(out, ignore_errors=True)
        os.makedirs(out)
        sched = "random" if p % 2 == 0 else "pct"
        jobs.append({"k": k, "out": out, "sched": sched, "seed": seed * 1000 + p, "depth": 2 + (p // 2) % 4,
                     "tree": os.path.join(core.SHM, "b2tree-%d-%d" % (os.getpid(), p))})
    arglists = [["run", "--sched", j["sched"], "--seed", j["seed"], "--iters", b["iters"], "--out", j["out"],
                 "--tree", j["tree"], "--scenario", j["k"], "--depth", j["depth"]] for j in jobs]
    results = shuttle.parallel(shuttle.B2_BIN, arglists, workers=workers)
    viols = []
    for j, r in zip(jobs, results):
        if r["failed"]:
            msg = r["message"]
            if not any(m in msg for m in ORACLE_MARKERS):
                raise HarnessError("B2 harness failed outside its oracles: %s | %s" % (msg, r.get("stderr_tail", "")[-400:]))
            clause = ("schedule-independent-result" if "depends on the schedule" in msg else
                      "partition-equals-truth" if "partition differs" in msg else "terminates-under-every-schedule")
            fs = [os.path.join(j["out"], f) for f in os.listdir(j["out"]) if f.startswith("schedule")]
            if not fs:
                raise HarnessError("B2 failure without a persisted schedule: %s" % msg)
            os.makedirs(replays_dir, exist_ok=True)
            dst = os.path.join(replays_dir, "%s-B2-%s-%s.schedule" % (pid, seed, j["seed"]))
            shutil.copyfile(max(fs, key=os.path.getmtime), dst)
            rp = dst.replace(".schedule", ".json")
            json.dump({"property": pid, "engine": "B2", "seed": seed, "scenario": j["k"], "scheduler": j["sched"],
                       "scheduler_seed": j["seed"], "schedule_file": dst, "clause": clause, "message": msg}, open(rp, "w"), indent=1)
            chk = replay(rp)
            if chk is None:
                raise HarnessError("persisted B2 schedule did not replay: %s" % dst)
            viols.append({"clause": clause, "message": msg, "replay": rp})
    for j in jobs:
        shutil.rmtree(j["out"], ignore_errors=True)
        shutil.rmtree(j["tree"], ignore_errors=True)
    summary = {"schedules": sum(r["executions"] for r in results), "processes": len(jobs),
               "scenarios": len({j["k"] for j in jobs}), "iterations_per_process": b["iters"],
               "real_vs_stub": {"group_files/rehash/Semaphore bodies": "real code from /repo (shadow manifest, --cfg fclones_verif_shuttle)",
                                "per-device threads, hashing pools, mpsc channel, Mutex/Condvar, lazy_static": "shuttle primitives via src/verif_shim.rs",
                                "directory walk, parallel sorts (global rayon pool, 1 thread), file reads, hashing": "real, opaque to the scheduler",
                                "fiemap path / HDD ordering": "not covered (disk kind pinned to SSD)"}}
    return summary, viols


def replay(path):
    """-> failure message if the persisted schedule fails again with an oracle message, else None"""
    shuttle.build_b2()
    j = json.load(open(path))
    tree = os.path.join(core.SHM, "b2replay-%d" % os.getpid())
    r = shuttle.run_bin(shuttle.B2_BIN, ["replay", "--file", j["schedule_file"], "--tree", tree, "--scenario", j["scenario"]])
    shutil.rmtree(tree, ignore_errors=True)
    if r["failed"] and any(m in r["message"] for m in ORACLE_MARKERS):
        return r["message"]
    return None
