"""C10 - reports round-trip losslessly from `group` to the dedupe commands.

Decided through the two real processes: what a dedupe command read is observed at the seam (raw
path bytes of its stat calls, in order) and through its effects; the report is treated as a
stream: cut at every byte, delivered in 1/7-byte chunks, writer failing or killed mid-report."""
import os
import random

from .. import core, ops, gen, report
from ..core import T0_NS, b2s, s2b, rule, stable_hash
from ..world import World, inventory, inv_brief

ID = "C10"
LEVEL = "exploration"
BUDGET = {"quick": {"n": 250, "trunc_reports": 3, "short_len": 2, "wall_s": 420}, "thorough": {"n": 6000, "trunc_reports": 40, "short_len": 3, "wall_s": 3300}}
RULE = ("(sizes) 4 worlds of sparse files whose lengths and byte totals sit where the human-readable size changes unit or width. (long paths) 4 worlds with paths near PATH_MAX and paths whose escaped form exceeds it several times. (short names, exhaustive) every string of 1..2 (thorough 1..3) symbols of a 17-symbol alphabet {space, tab, LF, CR, quotes, "
        "backslash, $, *, #, comma, colon, an invalid UTF-8 byte, a 2-byte character, -, ., a} as a file name and as a directory "
        "name, through the roundtrip below. (roundtrip) seeded worlds with hostile name alphabets incl. confusable siblings, --isolate roots with hostile "
        "names; `group` writes text and JSON; `remove --dry-run` reads each back: the sequence of raw paths it stats must "
        "equal the driver's independent parse of the JSON report, and the real `remove` on the text and on the JSON "
        "report must leave identical trees. (truncate) for scenario reports EVERY cut offset of the text report (JSON: "
        "every 5th + all boundaries): no member of a group that is not completely contained in the prefix may change, "
        "exit status non-zero unless the cut is at a group boundary. (chunked) stdin delivered in 1/7/4096-byte reads "
        "must give the same result. (writer) ENOSPC/EIO/kill at the k-th write of the report: group must fail and the "
        "partial report must be safe by the truncate rule. non-trivial = report has >= 1 group; distinct = distinct "
        "(kind, trace signature)")
ASSUMPTIONS = [
    "bounded-exhaustive part: every string of 1..2 (thorough: 1..3) symbols of a 17-symbol troublesome alphabet as a file "
    "name and as a directory name, through the real writer and readers; longer names randomly from the world generator",
    "serial dedupe (RAYON_NUM_THREADS=1) so that the stat sequence is the report order",
]


def _c(fam, n):
    return {"fam": fam, "len": n, "flips": []}


def trunc_worlds(k):
    """worlds whose names are prefixes of other names, so that a cut path line names another file"""
    ws = []
    w = World()
    w.add_file("r/ab", _c(1, 20)); w.add_file("r/abc", _c(1, 20)); w.add_file("r/a", _c(2, 20)); w.add_file("r/x/ab", _c(2, 20))
    w.add_file("r/zz", _c(3, 7)); w.add_file("r/z", _c(3, 7)); w.add_file("r/zzz", _c(4, 7))
    ws.append(w)
    w = World()
    w.add_file("r/one", _c(5, 300)); w.add_file("r/one two", _c(5, 300)); w.add_file("r/one two three", _c(6, 300)); w.add_file("r/on", _c(6, 300))
    w.add_file("r/d/e", _c(7, 11)); w.add_file("r/d/e1", _c(7, 11)); w.add_file("r/d/e12", _c(8, 11)); w.add_file("r/d/e123", _c(8, 11))
    ws.append(w)
    w = World()
    for i in range(12):
        w.add_file("r/f%d" % i, _c(9 + i % 3, 5))
    w.add_file("r/f", _c(20, 5)); w.add_file("r/f1x", _c(21, 5))
    ws.append(w)
    rng = random.Random(k)
    while len(ws) < k:
        w = World()
        names = ["n", "nn", "nnn", "n n", "q", "qq", "q\tq", "é", "éé"]
        for j, nm in enumerate(rng.sample(names, rng.randint(4, 8))):
            w.add_file("r/" + nm.encode("utf-8").decode("latin-1"), _c(30 + j % rng.randint(1, 3), rng.choice([4, 9])))
        ws.append(w)
    return ws[:k]


HOSTILE_CWDS = [b"cw\\d ", b" lead", b"trail ", b"t\tab", b"nb\xc2\xa0", b"q'uote\"", b"\xff\xfe", b"\xc5\xbc\xc3\xb3\xc5\x82w'", b"a\\x41", b"nl\nx",
                b"ideo\xe3\x80\x80", b"nel\xc2\x85", b"$HOME", b"#hash", b"-dash"]
SHORT_ALPHABET = [b" ", b"\t", b"\n", b"\r", b"'", b'"', b"\\", b"$", b"*", b"#", b",", b":", b"\x80", b"\xc3\xa9", b"-", b".", b"a"]


def short_name_worlds(maxlen, per_world=40):
    """EVERY string of 1..maxlen symbols of SHORT_ALPHABET as a file name (even worlds) or as a directory
    name (odd worlds), two copies each; bounded-exhaustive part of the quantifier, driven through the
    real writer and the real readers."""
    import itertools
    names = []
    for n in range(1, maxlen + 1):
        for t in itertools.product(SHORT_ALPHABET, repeat=n):
            nm = b"".join(t)
            if nm not in (b".", b".."):
                names.append(nm)
    for wi in range(0, len(names), per_world):
        w = World()
        as_dir = (wi // per_world) % 2 == 1
        for k, nm in enumerate(names[wi:wi + per_world]):
            c = {"hex": (b"%07d" % (wi + k)).hex()}
            for side in ("a", "b"):
                w.add_file("r/%s/%s%s" % (side, b2s(nm), "/x" if as_dir else ""), c)
        yield w


def long_path_worlds():
    """paths near PATH_MAX, and paths whose ESCAPED form is several times longer than PATH_MAX"""
    out = []
    for comp, depth in ((b"\xe0\xe1\xe2\xe3\xe4" * 50, 5), (b"n" * 255, 15), (b"\x01\x7f\t" * 80, 8), ("\u017c\u00f3\u0142w ".encode() * 25, 12)):
        w = World()
        d = "/".join([b2s(comp)] * depth)
        for k, side in enumerate(("a", "b", "c")):
            w.add_file("r/%s/%s/f" % (side, d), {"hex": b"long path".hex()})
        w.add_file("r/a/plain", {"hex": b"other".hex()})
        w.add_file("r/b/plain", {"hex": b"other".hex()})
        out.append(w)
    return out


def size_worlds():
    """file lengths and byte totals around the places where the human-readable size changes its unit or its
    number of digits (999.9 KB / 1000.0 KB / 1.0 MB ...); sparse files, so a megabyte costs nothing"""
    out = []
    for lens in ([999949, 999950, 1000000], [1048575, 1048576, 1048577], [500000, 999], [1023, 1024, 1000]):
        w = World()
        for k, n in enumerate(lens):
            for side in ("a", "b"):
                w.add_file("r/%s/s%d" % (side, k), {"sparse": n})
        out.append(w)
    return out


def gen_cases(tier, seed):
    b = BUDGET[tier]
    for wi, w in enumerate(size_worlds()):
        yield {"i": 4 * 10**6 + wi, "kind": "roundtrip", "cfg": None, "world": w.to_json(), "roots": ["r"],
               "gflags": [], "seam_seed": 7}
    for wi, w in enumerate(long_path_worlds()):
        yield {"i": 3 * 10**6 + wi, "kind": "roundtrip", "cfg": None, "world": w.to_json(), "roots": ["r"],
               "gflags": [], "seam_seed": 7}
    for wi, w in enumerate(short_name_worlds(b["short_len"])):
        yield {"i": 2 * 10**6 + wi, "kind": "roundtrip", "cfg": None, "world": w.to_json(), "roots": ["r"],
               "gflags": ["--hidden"], "seam_seed": 7}
    for i in range(b["n"]):
        rng = random.Random(stable_hash(seed, ID, i))
        cfg = gen.gen_cfg(rng, small=True, allow_cache=False)
        cfg["threads"] = ["1"]
        nroots = rng.choice([1, 2, 3])
        world, roots = gen.gen_world(rng, cfg, nroots=nroots, hostile=True, max_files=rng.choice([6, 12, 20]),
                                     families=rng.randint(1, 4), min_len=1, hostile_roots=rng.random() < 0.5)
        kind = rng.choice(["roundtrip", "roundtrip", "chunked", "writer"])
        c = {"i": i, "kind": kind, "cfg": cfg, "world": world.to_json(), "roots": roots,
             "gflags": (["--isolate"] if nroots >= 2 and rng.random() < 0.4 else []) + (["-S"] if rng.random() < 0.2 else []),
             "seam_seed": rng.randint(1, 10**9)}
        c["roots_last"] = rng.random() < 0.5
        c["tz"] = rng.choice([None, None, "IST-5:30", "NST3:30", "CET-1", "LINT-14", "NPT-5:45"])
        c["tz2"] = rng.choice([None, None, "UTC0", "PST8", "IST-5:30"])
        if rng.random() < 0.15:
            c["gflags"] = c["gflags"] + ["--exclude", rng.choice(["", " ", "''", "a b", "#", "x=y"])]   # odd words in the argument vector
        if kind == "roundtrip" and rng.random() < 0.4:
            # `group` started in a working directory with a hostile name, roots given RELATIVE to it: the
            # header's base directory must round-trip too, or inherited --isolate roots resolve elsewhere
            c["hcwd"] = b2s(rng.choice(HOSTILE_CWDS))
            if nroots >= 2 and "--isolate" not in c["gflags"]:
                c["gflags"] = ["--isolate"] + c["gflags"]
        if kind == "chunked":
            c["chunk"] = rng.choice([1, 7, 4096])
            c["fmt"] = rng.choice(["default", "json"])
            c["op"] = rng.choice(["remove", "link", "move"])
        if kind == "writer":
            c["fmt"] = rng.choice(["default", "json"])
            c["wfault"] = rng.choice(["errno:ENOSPC", "errno:EIO", "crashb", "crasha", "short:7"])
            c["word"] = rng.choice([0, 0, 1, 2])
            c["to_file"] = rng.random() < 0.5
        yield c
    for wi, w in enumerate(trunc_worlds(b["trunc_reports"])):
        base = {"kind": "truncate", "world": w.to_json(), "roots": ["r"], "gflags": [], "cfg": None}
        with core.RunDir("c10rec") as rd:
            World.from_json(base["world"]).materialise(rd.world)
            for fmt in ("default", "json"):
                g = ops.group(rd, [os.path.join(rd.world, "r")], ["--threads", "1"] + (["-f", "json"] if fmt == "json" else []),
                              env={"FCLONES_VERIF_DEVICES": "/=ssd:simroot"}, seed=3)
                n = len(g.out)
                offs = range(0, n + 1) if fmt == "default" else sorted(set(range(0, n + 1, 5)) | {n - 1, n - 2, n})
                for k in offs:
                    yield dict(base, i=10**6 + wi * 10**4 + k, fmt=fmt, cut=k, cut_from_end=n - k)


def shrink(case):
    if case["kind"] == "truncate":
        return
    ents = case["world"]["entries"]
    for i, e in enumerate(ents):
        if e["p"] in case["roots"]:
            continue
        if e["t"] == "d" and any(o["p"].startswith(e["p"] + "/") for o in ents):
            continue
        if any(o.get("to") == e["p"] and o["t"] == "h" for o in ents):
            continue
        c = dict(case); c["world"] = {"entries": ents[:i] + ents[i + 1:]}; yield c
    if case["gflags"]:
        c = dict(case); c["gflags"] = []; yield c


def _env(case, reader=False):
    e = gen.cfg_env(case["cfg"]) if case.get("cfg") else {"FCLONES_VERIF_DEVICES": "/=ssd:simroot"}
    tz = case.get("tz2") if (reader and case.get("tz2")) else case.get("tz")
    if tz:
        e = dict(e, TZ=tz)      # writer and reader may live in different time zones (POSIX TZ strings)
    return e


def _gargs(case, fmt):
    a = (gen.cfg_args(case["cfg"]) if case.get("cfg") else ["--threads", "1"]) + case["gflags"]
    if fmt == "json":
        a += ["-f", "json"]
    return a


def complete_prefix_groups(text, cut):
    """parse the text report written by group; return (paths of groups completely inside [0,cut), cut_at_boundary)"""
    rep = report.parse_text(text)
    data = text[:cut]
    # byte offsets of the end of each group (after the newline of its last path line)
    ends = []
    pos = 0
    lines = text.split(b"\n")
    off = 0
    idx = 0
    line_ends = []
    for l in lines[:-1]:
        off += len(l) + 1
        line_ends.append(off)
    # header lines
    li = 0
    while li < len(lines) and lines[li].startswith(b"#"):
        li += 1
    header_end = line_ends[li - 1] if li else 0
    safe = []
    boundary = cut == header_end
    for g in rep.groups:
        li += 1 + g.count
        end = line_ends[li - 1]
        if end <= cut:
            safe.extend(g.paths)
        if end == cut:
            boundary = True
    return set(safe), boundary, cut < header_end


def run_case(case):
    viol = []
    kind = case["kind"]
    with core.RunDir("c10") as rd:
        wroot = os.path.join(rd.wb(), s2b(case["hcwd"])) if case.get("hcwd") else rd.wb()
        World.from_json(case["world"]).materialise(wroot)
        os.makedirs(os.path.join(rd.world, "T"), exist_ok=True)
        if case.get("hcwd"):
            roots = [b"./" + s2b(r) for r in case["roots"]]  # relative to the hostile working directory
            gcwd = wroot
        else:
            roots = [os.path.join(rd.wb(), s2b(r)) for r in case["roots"]]
            gcwd = None
        env = _env(case)
        traces = []

        def V(clause, detail, res=None):
            viol.append({"clause": clause, "detail": "%s | kind=%s gflags=%s%s" % (
                detail, kind, case["gflags"], (" | stderr=" + res.err.decode("utf-8", "replace")[-500:]) if res is not None else "")})

        def rebuild():
            import shutil
            shutil.rmtree(rd.world)
            os.makedirs(rd.world)
            World.from_json(case["world"]).materialise(wroot)
            os.makedirs(os.path.join(rd.world, "T"), exist_ok=True)

        ngroups = 0
        if kind == "roundtrip":
            rl = bool(case.get("roots_last"))
            gj = ops.group(rd, roots, _gargs(case, "json"), env=env, seed=case["seam_seed"], cwd=gcwd, roots_last=rl)
            gt = ops.group(rd, roots, _gargs(case, "default"), env=env, seed=case["seam_seed"], cwd=gcwd, roots_last=rl)
            if gj.rc != 0 or gt.rc != 0:
                return {"violations": [], "nontrivial": False, "sig": None, "probes": {"group_failed": 1}, "invocations": 2, "info": {}}
            repj = report.parse_json(gj.out)
            ngroups = len(repj.groups)
            expect_seq = [p for g in repj.groups for p in g.paths]
            finals = {}
            for fmt, g in (("text", gt), ("json", gj)):
                dry = ops.dedupe(rd, "remove", g.out, extra=["--dry-run"], env=_env(case, True), now_ns=T0_NS + 3600 * 10**9, seed=5, threads_env=1)
                traces.append(dry.trace)
                if dry.rc != 0:
                    V("report-accepted", "%s report written by group is rejected by remove --dry-run (rc=%s)" % (fmt, dry.rc), dry)
                    continue
                seen = [e.path for e in dry.trace.main("stat") if e.path.startswith(rd.wb() + b"/")]
                # each listed path is statted at least once, in report order; collapse repeats
                seq = []
                for p in seen:
                    if not seq or seq[-1] != p:
                        seq.append(p)
                exp = []
                for p in expect_seq:
                    if not exp or exp[-1] != p:
                        exp.append(p)
                if seq != exp:
                    firstdiff = next((k for k in range(min(len(seq), len(exp))) if seq[k] != exp[k]), min(len(seq), len(exp)))
                    V("paths-read-back-exactly", "%s report: path #%d read back as %r, group wrote %r (%d vs %d paths)" % (
                        fmt, firstdiff, seq[firstdiff] if firstdiff < len(seq) else None, exp[firstdiff] if firstdiff < len(exp) else None, len(seq), len(exp)), dry)
                real = ops.dedupe(rd, "remove", g.out, env=env, now_ns=T0_NS + 3600 * 10**9, seed=5, threads_env=1)
                traces.append(real.trace)
                finals[fmt] = (inv_brief(inventory(rd.world)), real.rc)
                rebuild()
                # the header timestamp as the READER understood it: make one listed file look modified in 2100
                # and read the instant back from the "was updated after <timestamp>" warning
                if expect_seq and not case.get("hcwd"):
                    import re as _re
                    from datetime import datetime as _dt
                    victim = expect_seq[0]
                    try:
                        os.utime(victim, ns=(4102444800 * 10**9, 4102444800 * 10**9), follow_symlinks=False)
                        os.utime(victim, ns=(4102444800 * 10**9, 4102444800 * 10**9))
                    except OSError:
                        pass
                    ts = ops.dedupe(rd, "remove", g.out, extra=["--dry-run"], env=_env(case, True), now_ns=T0_NS + 3600 * 10**9, seed=5, threads_env=1)
                    m_ = _re.search(rb"updated after (\d{4}-\d\d-\d\d \d\d:\d\d:\d\d\.\d{3} [+-]\d{4})", ts.err)
                    h_ = _re.search(rb"# Timestamp: (\d{4}-\d\d-\d\d \d\d:\d\d:\d\d\.\d{3} [+-]\d{4})", gt.out)
                    if m_ and h_:
                        f_ = "%Y-%m-%d %H:%M:%S.%f %z"
                        a_, b_ = _dt.strptime(m_.group(1).decode(), f_), _dt.strptime(h_.group(1).decode(), f_)
                        if a_ != b_:
                            V("header-timestamp-read-back", "%s report: written %s, read back as %s (an instant %s away)" % (
                                fmt, h_.group(1).decode(), m_.group(1).decode(), abs(a_ - b_)), ts)
                    rebuild()
            if len(finals) == 2 and (set(finals["text"][0]) != set(finals["json"][0]) or finals["text"][1] != finals["json"][1]):
                V("formats-equivalent", "remove leaves different trees for the text and the JSON report of the same run: only-text %s only-json %s" % (
                    sorted(set(finals["text"][0]) - set(finals["json"][0]))[:6], sorted(set(finals["json"][0]) - set(finals["text"][0]))[:6]))
        elif kind == "chunked":
            g = ops.group(rd, roots, _gargs(case, case["fmt"]), env=env, seed=case["seam_seed"])
            if g.rc != 0:
                return {"violations": [], "nontrivial": False, "sig": None, "probes": {"group_failed": 1}, "invocations": 1, "info": {}}
            ngroups = g.out.count(b"\n") if case["fmt"] == "default" else 1
            outs = []
            for chunk in (None, case["chunk"]):
                plan = [rule(kind="read", path="<stdin>", act="short:%d" % chunk, count="inf")] if chunk else []
                res = ops.dedupe(rd, case["op"], g.out, target=os.path.join(rd.world, "T"), plan=plan, env=env,
                                 now_ns=T0_NS + 3600 * 10**9, seed=5, threads_env=1)
                traces.append(res.trace)
                outs.append((inv_brief(inventory(rd.world)), res.rc, ops.processed_count(res)))
                rebuild()
            a = {k: v.split(":i")[0] for k, v in outs[0][0].items()}
            b_ = {k: v.split(":i")[0] for k, v in outs[1][0].items()}
            if a != b_ or outs[0][1:] != outs[1][1:]:
                V("chunking-invariant", "report delivered in %d-byte reads gives a different result: rc/processed %s vs %s; diff %s" % (
                    case["chunk"], outs[0][1:], outs[1][1:], sorted(set(a.items()) ^ set(b_.items()))[:6]))
        elif kind == "writer":
            silent = 0
            outp = os.path.join(rd.base, "rep.out")
            extra = ["-o", outp] if case["to_file"] else []
            target_path = outp if case["to_file"] else "<stdout>"
            plan = [rule(kind="write", path=target_path, ord=case["word"], act=case["wfault"])]
            clean = ops.group(rd, roots, _gargs(case, case["fmt"]) + extra, env=env, seed=case["seam_seed"])
            if case["to_file"]:
                clean.out = open(outp, "rb").read()
                os.unlink(outp)
            g = ops.group(rd, roots, _gargs(case, case["fmt"]) + extra, env=env, seed=case["seam_seed"], plan=plan,
                          roots_extra=[rd.base + "/rep.out"])
            traces.append(g.trace)
            fired = g.trace.fired()
            data = open(outp, "rb").read() if case["to_file"] and os.path.exists(outp) else g.out
            ngroups = 1
            if fired:
                if case["wfault"].startswith("short"):
                    if g.rc != 0 or data != clean.out:
                        V("short-writes-harmless", "short writes changed the report or failed the run (rc=%s, %d vs %d bytes)" % (g.rc, len(data), len(clean.out)), g)
                else:
                    # (group's own exit status after a failed write is not part of any listed property:
                    #  counted as a probe only - fclones swallows flush errors of the report writer)
                    silent = int(case["wfault"].startswith("errno") and g.rc == 0)
                    if data != clean.out:
                        before = inventory(rd.world)
                        res = ops.dedupe(rd, "remove", data, env=env, now_ns=T0_NS + 3600 * 10**9, seed=5, threads_env=1)
                        traces.append(res.trace)
                        after = inventory(rd.world)
                        judge_partial(rd, clean.out, data, case["fmt"], before, after, res, V)
        elif kind == "truncate":
            g = ops.group(rd, roots, _gargs(case, case["fmt"]), env=env, seed=3)
            cut = len(g.out) - case["cut_from_end"]
            data = g.out[:cut]
            ngroups = 1
            before = inventory(rd.world)
            res = ops.dedupe(rd, "remove", data, env=env, now_ns=T0_NS + 3600 * 10**9, seed=5, threads_env=1)
            traces.append(res.trace)
            after = inventory(rd.world)
            judge_partial(rd, g.out, data, case["fmt"], before, after, res, V)
        verdict = ",".join(sorted({v["clause"] for v in viol}))
        return {
            "violations": viol,
            "nontrivial": ngroups > 0,
            "sig": kind + ops.trace_sig(rd, traces[-1:], verdict) if traces else None,
            "faults": ops.fault_counts(traces),
            "probes": {"kind_" + kind: 1, "group_exit0_after_failed_report_write": locals().get("silent", 0)},
            "sim_ns": 3600 * 10**9,
            "invocations": len(traces) + 1,
            "info": {"kind": kind, "fmt": case.get("fmt"), "cut": case.get("cut"), "gflags": case["gflags"]},
        }


def judge_partial(rd, full, data, fmt, before, after, res, V):
    """`data` is a proper prefix of the report `full`"""
    cut = len(data)
    if cut >= len(full):
        return
    if fmt == "json":
        safe, boundary, in_header = set(), False, True
    else:
        safe, boundary, in_header = complete_prefix_groups(full, cut)
    changed = []
    for p, e in before.items():
        if e.type == "d":
            continue
        a = after.get(p)
        if a is None or not e.untouched(a):
            changed.append(os.path.join(rd.wb(), p))
    bad = [p for p in changed if p not in safe]
    if bad:
        V("cut-group-not-acted-on", "report cut at byte %d of %d: files outside the completely transmitted groups changed: %s (tail of what was read: %r)" % (
            cut, len(full), [b2s(ops.relw(rd, p)) for p in bad], data[-60:]), res)
    if res.rc == 0 and not boundary and cut < len(full):
        # the statement speaks about a cut *inside a group*; a cut inside the header must merely do nothing
        if not in_header or fmt == "json":
            V("cut-report-rejected", "report cut at byte %d of %d (inside %s) but the command exited 0 (tail: %r)" % (
                cut, len(full), "the header" if in_header else "a group", data[-60:]), res)
