"""World specification, materialisation on tmpfs, and inventories (direct disk reads, no seam)."""
import hashlib
import os
import stat

from .core import T0_NS, b2s, s2b


# ----------------------------------------------------------------------------- contents

def content_bytes(c):
    """Content spec -> bytes.

    {"hex": "..."}                       explicit
    {"fam": k, "len": n, "flips": [[off, xor], ...]}   family stream with single byte flips
    {"uniq": "text", "len": n}           globally unique filler (actor edits)
    """
    if "hex" in c:
        return bytes.fromhex(c["hex"])
    if "zeros" in c:
        return bytes(c["zeros"])            # big files (behaviour that depends on a size threshold)
    if "sparse" in c:
        return bytes(c["sparse"])           # a hole: length n, (almost) no allocated blocks - see materialise()
    if "tailhole" in c:
        # data followed by a hole that reaches the end of the file
        head = bytes(bytearray(hashlib.shake_128(b"fam:%d" % c.get("fam", 0)).digest(c.get("len", 0))))
        return head + bytes(c["tailhole"] - len(head))
    n = c.get("len", 0)
    if "uniq" in c:
        return hashlib.shake_128(("uniq:" + c["uniq"]).encode()).digest(n)
    data = bytearray(hashlib.shake_128(b"fam:%d" % c.get("fam", 0)).digest(n))
    if c.get("text"):
        # printable variant (for transforms that are line/character oriented)
        data = bytearray(32 + (x % 95) for x in data)
    for off, x in c.get("flips", []):
        if 0 <= off < n:
            data[off] ^= (x & 0xFF) or 1
    return bytes(data)


def content_key(c):
    return hashlib.sha256(content_bytes(c)).hexdigest()


# ----------------------------------------------------------------------------- world

class World:
    """entries: list of dicts
        {"t":"d","p":path}
        {"t":"f","p":path,"c":content,"mt":ns,"mode":int}
        {"t":"h","p":path,"to":path}          hard link to an earlier "f"
        {"t":"l","p":path,"to":target_text}   symlink
       paths are latin-1 strs relative to the world root.
    """

    def __init__(self, entries=None):
        self.entries = entries or []

    def to_json(self):
        return {"entries": self.entries}

    @staticmethod
    def from_json(j):
        return World([dict(e) for e in j["entries"]])

    def files(self):
        return [e for e in self.entries if e["t"] in ("f", "h")]

    def add_dir(self, p):
        self.entries.append({"t": "d", "p": p})

    def add_file(self, p, c, mt=None, mode=None):
        e = {"t": "f", "p": p, "c": c}
        if mt is not None:
            e["mt"] = mt
        if mode is not None:
            e["mode"] = mode
        self.entries.append(e)
        return e

    def add_hardlink(self, p, to):
        self.entries.append({"t": "h", "p": p, "to": to})

    def add_symlink(self, p, to):
        self.entries.append({"t": "l", "p": p, "to": to})

    def materialise(self, root):
        rootb = root.encode() if isinstance(root, str) else root
        dir_mtimes = []
        for e in self.entries:
            p = os.path.join(rootb, s2b(e["p"]))
            parent = os.path.dirname(p)
            if not os.path.isdir(parent):
                os.makedirs(parent)
            t = e["t"]
            if t == "d":
                if not os.path.isdir(p):
                    os.makedirs(p)
            elif t == "f":
                with open(p, "wb") as f:
                    if "sparse" in e["c"]:
                        f.truncate(e["c"]["sparse"])
                    elif "tailhole" in e["c"]:
                        data = content_bytes(e["c"])
                        f.write(data[:e["c"].get("len", 0)])
                        f.truncate(e["c"]["tailhole"])
                    else:
                        f.write(content_bytes(e["c"]))
                if "mode" in e:
                    os.chmod(p, e["mode"])
                mt = e.get("mt", T0_NS - 3600 * 10**9)
                os.utime(p, ns=(e.get("at", mt), mt))
            elif t == "h":
                os.link(os.path.join(rootb, s2b(e["to"])), p)
            elif t == "l":
                os.symlink(s2b(e["to"]).replace(b"@ROOT@", rootb), p)
                mt = e.get("mt", T0_NS - 3600 * 10**9)
                os.utime(p, ns=(mt, mt), follow_symlinks=False)
        # directory mtimes: all in the simulated past
        for dp, dns, fns in os.walk(rootb, topdown=False):
            try:
                os.utime(dp, ns=(T0_NS - 7200 * 10**9, T0_NS - 7200 * 10**9))
            except OSError:
                pass


# ----------------------------------------------------------------------------- inventory

class Entry:
    __slots__ = ("type", "size", "sha", "target", "ident", "nlink", "mtime", "mode")

    def same_data(self, o):
        return self.type == o.type and self.size == o.size and self.sha == o.sha and self.target == o.target

    def untouched(self, o):
        """same path is 'untouched' (DESIGN 4.x): same inode class, bytes and mtime"""
        return self.same_data(o) and self.ident == o.ident and self.mtime == o.mtime

    def __repr__(self):
        return "<%s size=%s sha=%s tgt=%r id=%s nlink=%s mt=%s>" % (
            self.type, self.size, (self.sha or "")[:10], self.target, self.ident, self.nlink, self.mtime)


def _sha(path):
    h = hashlib.sha256()
    with open(path, "rb") as f:
        while True:
            b = f.read(1 << 20)
            if not b:
                break
            h.update(b)
    return h.hexdigest()


def inventory(root):
    """path bytes (relative to root) -> Entry.  Reads the disk directly."""
    rootb = root.encode() if isinstance(root, str) else root
    inv = {}

    def walk(d, rel):
        try:
            names = sorted(os.listdir(d))
        except OSError:
            return
        for nm in names:
            p = os.path.join(d, nm)
            r = nm if not rel else rel + b"/" + nm
            st = os.lstat(p)
            e = Entry()
            e.size = st.st_size
            e.sha = None
            e.target = None
            e.ident = (st.st_dev, st.st_ino)
            e.nlink = st.st_nlink
            e.mtime = st.st_mtime_ns
            e.mode = stat.S_IMODE(st.st_mode)
            if stat.S_ISDIR(st.st_mode):
                e.type = "d"
                e.size = 0
                inv[r] = e
                walk(p, r)
            elif stat.S_ISLNK(st.st_mode):
                e.type = "l"
                e.target = os.readlink(p)
                inv[r] = e
            elif stat.S_ISREG(st.st_mode):
                e.type = "f"
                try:
                    e.sha = _sha(p)
                except OSError:
                    e.sha = "unreadable"
                inv[r] = e
            else:
                e.type = "o"
                inv[r] = e

    walk(rootb, b"")
    return inv


def read_through(root, rel):
    """bytes obtained by reading path (following links), or None"""
    rootb = root.encode() if isinstance(root, str) else root
    try:
        with open(os.path.join(rootb, rel), "rb") as f:
            return f.read()
    except OSError:
        return None


def contents_of(inv):
    """set of sha of all regular files"""
    return {e.sha for e in inv.values() if e.type == "f"}


def diff(before, after):
    """paths whose entry changed, appeared or vanished (dirs: only appearance/vanishing)"""
    ch = []
    for p in sorted(set(before) | set(after)):
        a, b = before.get(p), after.get(p)
        if a is None or b is None:
            ch.append(p)
        elif a.type == "d" and b.type == "d":
            continue
        elif not a.untouched(b):
            ch.append(p)
    return ch


def inv_brief(inv):
    out = {}
    for p, e in sorted(inv.items()):
        if e.type == "f":
            out[b2s(p)] = "f:%d:%s:i%d" % (e.size, e.sha[:8], e.ident[1])
        elif e.type == "l":
            out[b2s(p)] = "l:" + b2s(e.target)
        elif e.type == "d":
            out[b2s(p)] = "d"
        else:
            out[b2s(p)] = e.type
    return out
