"""Shared helpers: invoking group / dedupe commands, summaries, trace signatures."""
import hashlib
import os
import re

from . import core
from .core import b2s, s2b

OPS = ("remove", "link", "softlink", "dedupe", "move")


def op_argv(op, target=None):
    if op == "remove":
        return ["remove"]
    if op == "link":
        return ["link"]
    if op == "softlink":
        return ["link", "--soft"]
    if op == "dedupe":
        return ["dedupe"]
    if op == "move":
        return ["move", target]
    raise ValueError(op)


def group(rd, roots, extra=(), roots_last=False, **kw):
    """roots: list of bytes/str paths (absolute or relative to cwd).  roots_last: the input paths end the
    command line (the last one is then the last word of the report header's command)."""
    if roots_last:
        return core.run_fclones(rd, ["group"] + list(extra) + list(roots), **kw)
    return core.run_fclones(rd, ["group"] + list(roots) + list(extra), **kw)


def dedupe(rd, op, report, extra=(), target=None, **kw):
    av = op_argv(op, target)
    # options go before the positional target of `move`
    if op == "move":
        av = ["move"] + list(extra) + [target]
    else:
        av = av + list(extra)
    return core.run_fclones(rd, av, stdin=report, **kw)


_NUM = re.compile(rb"(?<![\w.:])(\d+)(?![\w.:\]])")
_AMT = re.compile(rb"([0-9][0-9.]* ?[KMGTP]?i?B)\b")


def summary(res):
    """(files, amount text) of the final summary line - the last stderr line that speaks about
    reclaimed space - or None.  Tolerant to rewording of the message."""
    for line in reversed(res.err.split(b"\n")):
        if b"reclaim" in line.lower():
            body = line.split(b"]", 1)[-1]           # drop a leading [timestamp]
            m = _NUM.search(body)
            a = _AMT.search(body)
            if m:
                return int(m.group(1)), (a.group(1) if a else b"")
    return None


def processed_count(res):
    s_ = summary(res)
    return s_[0] if s_ else None


TEMP_RE = re.compile(rb"^(.*)\.([A-Za-z0-9]{24})$")


def temp_siblings(inv, rel):
    """inventory paths that look like temp siblings `rel.<24 alnum>`"""
    out = []
    for p in inv:
        m = TEMP_RE.match(p)
        if m and m.group(1) == rel:
            out.append(p)
    return out


def mask_temp(p):
    return re.sub(rb"\.[A-Za-z0-9]{24}(?=$|/)", b".<tmp>", p)


def temp_owner(p, originals):
    """If `p` is not one of `originals` but a sibling whose name extends the name of one of them
    (fclones' temporary names are `<name><something>` in the same directory, whatever the format),
    return that original; else None."""
    if p in originals:
        return None
    d, nm = os.path.split(p)
    for k in range(len(nm) - 1, 0, -1):
        cand = os.path.join(d, nm[:k])
        if cand in originals:
            return cand
    # a long original name may be shortened to make room for the temporary suffix: the new entry then
    # shares a long prefix (>= 150 bytes, all but its last <= 40 bytes) with an original of the same directory
    if len(nm) >= 190:
        for o in originals:
            od, onm = os.path.split(o)
            if od == d and len(onm) >= len(nm) - 40 and onm[:len(nm) - 40] == nm[:len(nm) - 40]:
                return o
    return None


def mask_temp_of(p, originals):
    o = temp_owner(p, originals)
    return (o + b".<tmp>") if o is not None else p


def trace_sig(rd, traces, verdict=""):
    """Coverage signature: per-path sequences of (kind, outcome, injected action), run-dir and
    temp-suffix independent; order across paths ignored."""
    base = rd.base.encode()
    per = {}
    for t in traces:
        for e in t.events + t.child_events:
            p = mask_temp(e.path.replace(base, b"@"))
            if p.startswith(b"@/cache"):
                p = b"@/cache"
            per.setdefault(p, []).append("%s:%s:%s" % (e.kind, "ok" if e.ret >= 0 else e.errno, e.act))
    h = hashlib.sha256()
    for p in sorted(per):
        h.update(p + b"\0" + ",".join(per[p]).encode() + b"\n")
    h.update(verdict.encode())
    return h.hexdigest()[:16]


def fault_counts(traces):
    c = {}
    for t in traces:
        for e in t.fired():
            k = e.act if e.act != "errno" else "errno:%d" % e.arg
            k = "%s@%s" % (k, e.kind)
            c[k] = c.get(k, 0) + 1
        for _ in t.pauses:
            c["pause"] = c.get("pause", 0) + 1
    return c


def absw(rd, rel):
    """absolute bytes path of a world-relative latin-1 str / bytes"""
    if isinstance(rel, str):
        rel = s2b(rel)
    return os.path.join(rd.wb(), rel)


def relw(rd, absb):
    w = rd.wb() + b"/"
    return absb[len(w):] if absb.startswith(w) else None
