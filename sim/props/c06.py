"""C06 - replica counting honours links, isolation and the replication filter.

Reference-model refinement over worlds whose point is link structure, plus a metamorphic check:
the report must not depend on how the roots are spelled."""
import os
import random

from .. import core, ops, gen, report, model
from ..core import T0_NS, b2s, s2b, stable_hash
from ..world import World

ID = "C06"
LEVEL = "exploration"
BUDGET = {"quick": {"n": 1500, "wall_s": 400}, "thorough": {"n": 30000, "wall_s": 3300}}
RULE = ("per case: 1..4 roots holding 1..4 content families with hard-link sets inside and across roots and symlinks "
        "to files inside/outside the scanned set and to directories; flags from {--rf-over k, --rf-under k, --unique} x "
        "{-H} x {--isolate} x {-S} x {-L}; every root spelled in a way drawn from {absolute, relative, ./x, x/, x/../x, "
        "through a directory symlink}; oracle: report == reference replica model, and report identical to the run "
        "with canonical absolute spellings (metamorphic). non-trivial = model expects >= 1 group; distinct = distinct "
        "(trace signature, flags)")
ASSUMPTIONS = ["reference model of replica counting written from README/--help", "names are plain (hostile names: C02/C10)"]
SPELLINGS = ["abs", "rel", "dot", "slash", "dotdot", "symlink"]


def gen_case(seed, i):
    rng = random.Random(stable_hash(seed, ID, i))
    nroots = rng.randint(1, 4)
    w = World()
    roots = gen.root_names(rng, nroots)
    for r in roots:
        w.add_dir(r)
        w.add_dir(r + "/sub")
    w.add_dir("out")
    files = []
    nfam = rng.randint(1, 4)
    # every sixth world is TIGHT: two or three families of ONE common length with one file each (plus the links
    # drawn below): whether a class is reported then hangs on how the few inodes of that size are counted at
    # every stage, early ones included
    tight = rng.random() < 0.17
    if tight:
        nfam = rng.choice([2, 2, 3])
    n_tight = rng.choice([9, 300])
    for f in range(nfam):
        n = n_tight if tight else rng.choice([1, 9, 300])
        for k in range(1 if tight else rng.randint(1, 4)):
            d = rng.choice(roots) + rng.choice(["", "/sub"])
            p = "%s/f%dk%d" % (d, f, k)
            w.add_file(p, {"fam": f + 1, "len": n, "flips": []})
            files.append(p)
        if rng.random() < 0.3:
            w.add_file("out/o%d" % f, {"fam": f + 1, "len": n, "flips": []})
    for k in range(rng.choice([1, 2, 3]) if tight else rng.choice([0, 1, 2, 3])):
        t = rng.choice(files)
        d = rng.choice(roots) + rng.choice(["", "/sub"])
        w.add_hardlink("%s/h%d" % (d, k), t)
    for k in range(rng.choice([0, 1, 2])):
        d = rng.choice(roots) + rng.choice(["", "/sub"])
        kind = rng.choice(["file", "file", "outfile", "outpair", "dir", "dangling"])
        if kind == "file":
            t = rng.choice(files)
            r_ = rng.random()
            if r_ < 0.25:
                # absolute but not canonical: through the directory link of its root, or out of a directory and back
                t = "L%d/%s" % (roots.index(t.split("/")[0]) + 1, t.split("/", 1)[1])
            elif r_ < 0.4 and t.count("/") >= 2:
                d_, n_ = t.rsplit("/", 1)
                t = d_ + "/../" + d_.rsplit("/", 1)[1] + "/" + n_
            w.add_symlink("%s/s%d" % (d, k), "@ROOT@/" + t)
        elif kind == "outfile":
            outs = [e["p"] for e in w.entries if e["p"].startswith("out/")]
            if outs:
                w.add_symlink("%s/s%d" % (d, k), "@ROOT@/" + rng.choice(outs))
        elif kind == "outpair":
            # two links to two different HARD LINKS of one file that lies outside the roots: with -L both
            # names are paths of the class (one replica, two paths)
            fam_ = rng.randint(1, nfam)
            n_ = [e["c"]["len"] for e in w.entries if e["t"] == "f" and e["c"].get("fam") == fam_][0]
            w.add_file("out/pair%d" % k, {"fam": fam_, "len": n_, "flips": []})
            w.add_hardlink("out/pair%dh" % k, "out/pair%d" % k)
            w.add_symlink("%s/s%da" % (d, k), "@ROOT@/out/pair%d" % k)
            w.add_symlink("%s/s%db" % (rng.choice(roots), k), "@ROOT@/out/pair%dh" % k)
        elif kind == "dir":
            w.add_symlink("%s/sd%d" % (d, k), "@ROOT@/" + rng.choice(roots) + "/sub")
        else:
            w.add_symlink("%s/s%d" % (d, k), "nowhere")
    for k, r in enumerate(roots):
        w.add_symlink("L%d" % (k + 1), r)   # directory symlinks used by the "symlink" spelling
    flags = {}
    r = rng.random()
    if tight and r < 0.6:
        flags["rf_over"] = rng.choice([1, 2, 2, 3])
    elif r < 0.3:
        flags["rf_over"] = rng.choice([0, 1, 2, 3])
    elif r < 0.45:
        flags["rf_under"] = rng.choice([1, 2, 3])
    elif r < 0.6:
        flags["unique"] = True
    flags["H"] = rng.random() < 0.3
    flags["S"] = rng.random() < 0.35
    flags["L"] = rng.random() < 0.25
    flags["isolate"] = (not flags["L"]) and nroots >= 2 and rng.random() < 0.45
    if flags["isolate"]:
        rf = flags.get("rf_over", 1) if not (flags.get("unique") or "rf_under" in flags) else 0
        if nroots <= rf:
            flags.pop("rf_over", None)
        if flags.get("unique") and nroots < 2:
            flags["isolate"] = False
        if "rf_under" in flags and nroots < flags["rf_under"]:
            flags["rf_under"] = nroots
    spell = [rng.choice(SPELLINGS) for _ in roots]
    if flags["isolate"] and rng.random() < 0.3:
        # FILES given as input paths of their own (each one is a root), two of them in one directory that is
        # not below any directory root
        fam0 = rng.randint(1, nfam)
        n0 = [e["c"]["len"] for e in w.entries if e["t"] == "f" and e["c"].get("fam") == fam0][0]
        for k in range(rng.choice([2, 2, 3])):
            w.add_file("out/p%d" % k, {"fam": fam0, "len": n0, "flips": []})
            at = rng.randint(0, len(roots))
            roots = roots[:at] + ["out/p%d" % k] + roots[at:]
            spell = spell[:at] + [rng.choice(["abs", "rel", "dot"])] + spell[at:]
        if flags["S"] and rng.random() < 0.5:
            # ... and one input path that is itself a symbolic link to a FILE (reported as the link with -S): a root
            # of its own like the files above, holding one more replica
            w.add_file("store/lt", {"fam": fam0, "len": n0, "flips": []})
            w.add_symlink("out/lnk", "../store/lt")
            at = rng.randint(0, len(roots))
            roots = roots[:at] + ["out/lnk"] + roots[at:]
            spell = spell[:at] + [rng.choice(["abs", "rel", "dot"])] + spell[at:]
        spell = [("abs" if (h == "symlink") else h) for h in spell]
    if not flags["isolate"] and rng.random() < 0.25:
        # overlapping input paths: a sub-directory of a root (through the root's symlink in a third of the
        # draws) or the root once more, before, between or after the others - every path below is reached twice
        r0 = rng.choice(roots)
        k0 = roots.index(r0)
        extra, how = rng.choice([(r0 + "/sub", "abs"), (r0 + "/sub", "rel"), (r0 + "/sub", "slash"), (r0 + "/sub", "dot"),
                                 ("L%d/sub" % (k0 + 1), "rel"), (r0, rng.choice(SPELLINGS[:5]))])
        at = rng.randint(0, len(roots))
        roots = roots[:at] + [extra] + roots[at:]
        spell = spell[:at] + [how] + spell[at:]
        # the "symlink" spelling refers to roots by position: keep it for the original roots only
        spell = [("abs" if (h == "symlink") else h) for h in spell]
    return {"i": i, "world": w.to_json(), "roots": roots, "flags": flags, "spell": spell,
            "basedir": rng.choice([None, None, None, "abs", "rel"]),
            "threads": rng.choice(["1", "2", "0"])}


def gen_cases(tier, seed):
    for i in range(BUDGET[tier]["n"]):
        yield gen_case(seed, i)


def shrink(case):
    ents = case["world"]["entries"]
    for i, e in enumerate(ents):
        if e["p"] in case["roots"] or e["p"].startswith("L") or e["p"] == "out":
            continue
        if any(o.get("to") == e["p"] and o["t"] == "h" for o in ents):
            continue
        if e["t"] == "d" and any(o["p"].startswith(e["p"] + "/") for o in ents):
            continue
        c = dict(case); c["world"] = {"entries": ents[:i] + ents[i + 1:]}; yield c
    for k in list(case["flags"]):
        if case["flags"][k] not in (False, None):
            c = dict(case); c["flags"] = dict(case["flags"]); c["flags"].pop(k)
            if k in ("H", "S", "L", "isolate"):
                c["flags"][k] = False
            yield c
    for i, sp in enumerate(case["spell"]):
        if sp != "abs":
            c = dict(case); c["spell"] = list(case["spell"]); c["spell"][i] = "abs"; yield c


def flag_args(f):
    a = []
    if "rf_over" in f:
        a += ["--rf-over", str(f["rf_over"])]
    if "rf_under" in f:
        a += ["--rf-under", str(f["rf_under"])]
    if f.get("unique"):
        a += ["--unique"]
    for k, o in (("H", "-H"), ("S", "-S"), ("L", "-L"), ("isolate", "--isolate")):
        if f.get(k):
            a.append(o)
    return a


def spelled(rd, root, how, k):
    if how == "abs":
        return os.path.join(rd.world, root)
    if how == "rel":
        return root
    if how == "dot":
        return "./" + root
    if how == "slash":
        return root + "/"
    if how == "dotdot":
        return "%s/../%s" % (root, root)
    if how == "symlink":
        return "L%d" % (k + 1)
    raise ValueError(how)


def run_case(case):
    f = case["flags"]
    viol = []
    with core.RunDir("c06") as rd:
        World.from_json(case["world"]).materialise(rd.world)
        canon = [os.path.join(rd.wb(), s2b(r)) for r in case["roots"]]
        sel = model.scan(canon, follow=f.get("L", False), report_links=f.get("S", False))
        exp = model.expected_groups(sel, match_links=f.get("H", False), isolate_roots=canon if f.get("isolate") else None,
                                    rf_over=f.get("rf_over"), rf_under=f.get("rf_under"), unique=f.get("unique", False))
        env = {"FCLONES_VERIF_DEVICES": "/=ssd:simroot"}
        args = flag_args(f) + ["--threads", case["threads"], "-f", "json"]
        traces = []
        reps = []
        for which in ("spelled", "canonical"):
            if which == "spelled":
                roots = [spelled(rd, r, case["spell"][k], k) for k, r in enumerate(case["roots"])]
            else:
                roots = [os.path.join(rd.world, r) for r in case["roots"]]
            bd = case.get("basedir") if which == "spelled" else None
            # the spelled run may be started elsewhere, with --base-dir naming the directory relative roots belong to
            res = ops.group(rd, roots, (["--base-dir", rd.world if bd == "abs" else os.path.relpath(rd.world, rd.base)] if bd else []) + args,
                            env=env, cwd=rd.base if bd else rd.world, seed=5)
            traces.append(res.trace)
            if res.timed_out:
                viol.append({"clause": "terminates", "detail": "group hung"})
                break
            if res.rc != 0:
                viol.append({"clause": "group-succeeds", "detail": "%s roots %s: rc=%s %s" % (which, roots, res.rc, res.err.decode("utf-8", "replace")[-500:])})
                break
            rep = report.parse_json(res.out)
            reps.append(rep)
            got = rep.pathsets()
            if got != exp:
                viol.append({"clause": "replica-model-" + which, "detail": "%s roots %s: missing groups %s; unexpected groups %s" % (
                    which, roots, [[b2s(ops.relw(rd, p)) for p in g] for g in exp if g not in got][:6],
                    [[b2s(ops.relw(rd, p) or p) for p in g] for g in got if g not in exp][:6])})
        if len(reps) == 2 and reps[0].pathsets() != reps[1].pathsets():
            viol.append({"clause": "spelling-invariant", "detail": "report differs between spellings %s and canonical absolute roots: %s vs %s" % (
                case["spell"], [[b2s(ops.relw(rd, p) or p) for p in g] for g in reps[0].pathsets()][:6],
                [[b2s(ops.relw(rd, p) or p) for p in g] for g in reps[1].pathsets()][:6])})
        for v in viol:
            v["detail"] += " | flags=%s spell=%s" % (f, case["spell"])
        verdict = ",".join(sorted({v["clause"] for v in viol}))
        return {
            "violations": viol,
            "nontrivial": len(exp) > 0,
            "sig": ops.trace_sig(rd, traces[:1], verdict + repr(sorted(f.items()))),
            "probes": {"expected_groups": len(exp), "isolate": int(bool(f.get("isolate"))), "match_links": int(bool(f.get("H"))),
                       "symbolic_links": int(bool(f.get("S"))), "follow_links": int(bool(f.get("L"))),
                       **{"spell_" + s: 1 for s in set(case["spell"])}},
            "sim_ns": 0,
            "invocations": 2,
            "info": {"flags": f, "spell": case["spell"], "expected_groups": len(exp), "selected": len(sel)},
        }
