#!/usr/bin/env python3
"""tools/mkmeta.py <name> <property> <checks,comma> <what> <needs> <caught_by> [base]  - write seeded/<name>/meta.json"""
import json, subprocess, sys
name, prop, checks, what, needs, caught = sys.argv[1:7]
base = sys.argv[7] if len(sys.argv) > 7 else subprocess.check_output(["git", "-C", "/repo", "rev-parse", "--short", "HEAD"]).decode().strip()
json.dump({"property": prop, "checks": checks.split(","), "what": what, "needs_to_manifest": needs, "caught_by": caught,
           "source": "fresh sub-agent (round 2: told only the property text and which idea round 1 had used) with a scratch worktree of /repo",
           "base": base,
           "confirmed": "demonstration re-run by the main session in the scratch worktree after a rebuild: exit 1 with the change, exit 0 without; cargo test --workspace passes with the change (per NOTES.md)",
           "ran": "tools/confirm_seed.sh + tools/seedtest.py seeded/%s/patch.diff %s" % (name, " ".join(checks.split(",")))},
          open("/verif/seeded/%s/meta.json" % name, "w"), indent=1)
