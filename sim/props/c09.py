"""C09 - the scan selects exactly the files the options describe.

Reference walk (model.scan) vs the real parallel walk under main-pool sizes {1, 2, 16}."""
import os
import random
import re

from .. import core, ops, report, model
from ..core import b2s, s2b, stable_hash
from ..world import World
from .c08 import glob_match

ID = "C09"
LEVEL = "exploration"
BUDGET = {"quick": {"n": 1200, "wall_s": 400}, "thorough": {"n": 20000, "wall_s": 3300}}
RULE = ("per case: tree with nesting 0..6, hidden files/dirs, .gitignore/.fdignore (simple forms), file and directory "
        "symlinks (relative, absolute, dangling, cyclic), directory names with regex metacharacters and non-ASCII text; "
        "options drawn from --depth, --hidden, --no-ignore, --min/--max, --name, --path, --exclude (glob, -i, or --regex), "
        "-L, -S; patterns absolute or relative to a random working directory inside the tree; overlapping / repeated "
        "roots; every case runs with main pool sizes 1, 2 and 16; oracle: union of reported paths (--rf-over 0) == "
        "reference walk, identical for all pool sizes. non-trivial = reference selects >= 1 file and some option or "
        "link is active; distinct = distinct (trace signature, options)")
ASSUMPTIONS = [
    "with --follow-links no ignore files are generated (scope of an ignore file for entries reached through a link is undocumented)",
    "a directory fully matched by --exclude is excluded with everything below it",
    "roots never have hidden names; depth: a file d levels below a root directory is selected iff d <= --depth",
    "ignore files use only the documented simple forms name, dir/, *.ext, **/name; never both .gitignore and .fdignore in one directory",
    "glob forms restricted to literal/*/**/? (C16 not decided here); --one-fs: a subtree is presented as another device by seam relabelling of st_dev",
]
def _l1(x):
    return x.encode("utf-8").decode("latin-1")   # world paths are latin-1 views of the byte strings


DIRNAMES = [_l1(x) for x in ["a", "b", "c", "sub", "a+b", "x-y", "d.e", "(p)", "[q]", "żółw", "dir w", "UP", "日本",
                             # a regex metacharacter followed by a digit, by nothing, or by another metacharacter
                             "r-1", "v1.2", "c++", "x-",
                             # a line break inside a name
                             "n\nl"]]
FILENAMES = [_l1(x) for x in ["f.txt", "g.TXT", "h.dat", "k", "m.txt", "n.bin", "README", "x1.txt", "ż.txt", "k$", "^k", "t\nx.txt"]]


def gen_case(seed, i):
    rng = random.Random(stable_hash(seed, ID, i))
    w = World()
    roots = ["R1"] + (["R2"] if rng.random() < 0.4 else [])
    dirs = []
    for r in roots:
        w.add_dir(r)
        dirs.append(r)
        cur = [r]
        for lvl in range(rng.randint(0, 6)):
            parent = rng.choice(cur)
            nm = rng.choice(DIRNAMES)
            if rng.random() < 0.12:
                nm = "." + nm
            d = parent + "/" + nm
            if d not in dirs:
                w.add_dir(d)
                dirs.append(d)
                cur.append(d)
                if rng.random() < 0.6:
                    cur = [d] + cur[:2]
    files = []
    fam = 0
    for d in dirs:
        for _ in range(rng.choice([0, 1, 1, 2, 3])):
            nm = rng.choice(FILENAMES)
            if rng.random() < 0.12:
                nm = "." + nm
            p = d + "/" + nm
            if p in files or p in dirs:
                continue
            fam += 1
            w.add_file(p, {"fam": fam, "len": rng.choice([0, 1, 5, 50, 500]), "flips": []})
            files.append(p)
    for k in range(rng.choice([0, 0, 1, 2, 3])):
        d = rng.choice(dirs)
        kind = rng.choice(["file-rel", "file-abs", "dir-rel", "dir-abs", "dangling", "cycle"])
        lp = "%s/l%d" % (d, k)
        if k >= 1 and kind in ("file-rel", "file-abs"):
            # a link to a FILE that carries a name the directory-only ignore rules (`sub/`, `a/`) mention: such a rule
            # is about directories, the link (-S) or its target (-L) stays selected (no draw: the stream is unchanged)
            cand = d + "/" + ("sub", "a")[k % 2]
            if cand not in files and cand not in dirs:
                lp = cand
        if kind == "file-rel" and files:
            t = rng.choice(files)
            w.add_symlink(lp, os.path.relpath(t, d))
        elif kind == "file-abs" and files:
            t = rng.choice(files)
            if rng.random() < 0.4 and t.count("/") >= 2:
                # an absolute target that is not canonical: it climbs out of a directory and back in
                d_, n_ = t.rsplit("/", 1)
                t = d_ + "/../" + d_.rsplit("/", 1)[1] + "/" + n_
            w.add_symlink(lp, "@ROOT@/" + t)
        elif kind == "dir-rel":
            w.add_symlink(lp, os.path.relpath(rng.choice(dirs), d))
        elif kind == "dir-abs":
            t = rng.choice(dirs)
            if rng.random() < 0.4 and "/" in t:
                t = t + "/../" + t.rsplit("/", 1)[1]
            w.add_symlink(lp, "@ROOT@/" + t)
        elif kind == "dangling":
            w.add_symlink(lp, "no/such/thing")
        elif kind == "cycle":
            w.add_symlink(lp, "..")
    opts_L = rng.random() < 0.35
    # with --follow-links an entry can be reached along routes that carry different ignore files; the
    # reference selects it when SOME route does not ignore it. fclones keeps whichever route came first
    # (known finding c09-follow-links-route-order), so only a third of the -L worlds get ignore files
    ign_ok = (not opts_L) or rng.random() < 0.35
    for d in dirs:
        if rng.random() < 0.15 and ign_ok:
            rules = rng.sample(["k", "sub/", "*.dat", "**/README", "*.bin", "a/", "m.txt"], rng.randint(1, 3))
            ign = d + "/" + rng.choice([".gitignore", ".fdignore"])
            if rng.random() < 0.25:
                # the ignore file is a symbolic link to a rules file kept elsewhere (dotfiles managed by stow & co.)
                store = roots[0] + "/.rules%d" % len(dirs)
                w.add_file(store, {"hex": ("\n".join(rules) + "\n").encode().hex()})
                w.add_symlink(ign, "@ROOT@/" + store)
            else:
                w.add_file(ign, {"hex": ("\n".join(rules) + "\n").encode().hex()})
    opts = {}
    if rng.random() < 0.35:
        opts["depth"] = rng.choice([0, 1, 1, 2, 3, 4])
    opts["hidden"] = rng.random() < 0.3
    opts["no_ignore"] = rng.random() < 0.3
    if rng.random() < 0.25:
        opts["min"] = rng.choice([0, 1, 5, 6, 50])
    if rng.random() < 0.2:
        opts["max"] = rng.choice([0, 1, 5, 49, 500])
    opts["L"] = opts_L
    if "depth" in opts and not any(e["p"].endswith("ignore") for e in w.entries) and rng.random() < 0.4:
        opts["L"] = True
    opts["S"] = rng.random() < 0.3
    opts["i"] = rng.random() < 0.2
    opts["cwd"] = rng.choice(dirs)
    r = rng.random()
    if r < 0.08:
        opts["regex"] = True
        if rng.random() < 0.6:
            opts["name"] = [rng.choice([r".*\.txt", r"[a-m]\..*", r"k|README", r".*"])]
        if rng.random() < 0.4:
            opts["path"] = [rng.choice([r".*/sub/.*|.*\.txt", r".*/(a|b)/[^/]*", r"@W@/R1/.*", r"[^/]*|sub/.*", r"a/.*", r".*/k|.*/sub/.*/[^/]*"])]
        if rng.random() < 0.4:
            opts["exclude"] = [rng.choice([r".*\.dat|.*/b/.*", r".*/sub", r"k|README", r".*/a|.*/d", r"@W@/R1/a"])]
    else:
        if rng.random() < 0.3:
            opts["name"] = [rng.choice(["*.txt", "*.TXT", "?", "f.*", "*", "README", "x1.txt", "k$", "*$", "^*", "^k"])]
        if rng.random() < 0.3:
            opts["path"] = [rng.choice(["**/sub/**", "@W@/R1/**", "*/*", "**/a+b/*", "**/*.txt", "*", "@W@/**/d.e/**", "sub/*", "**/(p)/**", "**",
                                        # patterns whose literal prefix is long / non-ASCII and that need a descent below it
                                        "*/**", "*/*/*", "a/**", "sub/**", "@W@/R1/żółw/**", "@W@/R1/日本/**", "@W@/R2/żółw/*/*", "@W@/R1/a+b/**",
                                        "@W@/R1/r-1/**", "@W@/R1/v1.2/**", "@W@/R1/c++/*/*", "r-1/**", "c++/**", "x-/**", "@W@/R1/x-/**"])]
        if rng.random() < 0.35 and any("/" in d for d in dirs):
            # a pattern built from a directory that EXISTS in this world (whatever its name holds: regex
            # metacharacters, spaces, non-ASCII text), absolute or relative to the working directory
            d = rng.choice([d for d in dirs if "/" in d])
            esc = "".join(("\\" + ch) if ch in "[]{}?*\\" else ch for ch in d)
            tail = rng.choice(["/**", "/*", "/*/*", "/**/*.txt"])
            opts["path"] = ["@W@/" + esc + tail]
            if rng.random() < 0.4:
                opts["cwd"] = d.rsplit("/", 1)[0]
                opts["path"] = ["".join(("\\" + ch) if ch in "[]{}?*\\" else ch for ch in d.rsplit("/", 1)[1]) + tail]
        if rng.random() < 0.3:
            opts["exclude"] = [rng.choice(["**/sub/**", "**/*.dat", "@W@/R1/a/**", "*", "**/b/*", "**/\\[q\\]/**", "*/*.txt", "**/żółw/**",
                                           # patterns that fully match one entry and are a *string* prefix of a sibling
                                           # (a / a+b, d / d.e / dir w, x / x-y, f.t / f.txt)
                                           "@W@/R1/a", "**/a", "**/d", "**/x", "**/f.t", "a", "@W@/R1/su"])]
    # the same selection option given twice (patterns are alternatives)
    for k, pool in (("name", ["*.txt", "k", "README", "?.dat", "*.bin"]),
                    ("path", ["**/sub/*", "@W@/R1/a/**", "@W@/R1/b/*", "a/**", "b/*", "**/k", "*/*"]),
                    ("exclude", ["**/*.dat", "@W@/R1/b/**", "**/sub/**", "k"])):
        if opts.get(k) and not opts.get("regex") and rng.random() < 0.3:
            opts[k] = opts[k] + [rng.choice(pool)]
    # a directory link sitting exactly at the depth limit (and one just inside it), when both options are on
    if "depth" in opts and opts["depth"] >= 1 and opts["L"] and rng.random() < 0.7:
        at = [d for d in dirs if d.count("/") == opts["depth"] - 1] or [roots[0]]
        tgt = [d for d in dirs if any(f.startswith(d + "/") for f in files)] or dirs
        w.add_symlink(rng.choice(at) + "/dl_at_limit", "@ROOT@/" + rng.choice(tgt))
    if opts["L"] and rng.random() < 0.5:
        # a followed link whose target is a hidden file, or lies inside a hidden directory: the target
        # is an entry like any other and --hidden decides about it
        # (a file with a visible name inside a hidden directory is selectable only through such a link; a file
        # whose own name is hidden stays unselected either way - both kinds are drawn)
        hid = [f for f in files if "/." in f and not f.rsplit("/", 1)[1].startswith(".")]
        if not hid or rng.random() < 0.2:
            d = rng.choice(dirs)
            fam += 1
            hid = [d + "/" + rng.choice([".hid.txt", ".hd/f.txt", ".hd/k", ".hd/sub/m.txt"])]
            w.add_file(hid[0], {"fam": fam, "len": rng.choice([1, 5, 50]), "flips": []})
            files.append(hid[0])
        t = rng.choice(hid)
        vis = [d for d in dirs if "/." not in d] or dirs
        d = rng.choice(vis)
        if not opts.get("regex") and rng.random() < 0.4:
            # ... and --path names the target (or its directory) while the link sits in a directory that cannot
            # match that pattern: pruning the link's directory must not lose the target
            esc_t = "".join(("\\" + ch) if ch in "[]{}?*\\" else ch for ch in t)
            opts["path"] = ["@W@/" + rng.choice([esc_t, esc_t.rsplit("/", 1)[0] + "/*"])]
            opts.pop("name", None)
            d = roots[-1] + "/outside.d"
            if d not in dirs:
                w.add_dir(d)
                dirs.append(d)
        w.add_symlink(d + "/l_hid", rng.choice([os.path.relpath(t, d), "@ROOT@/" + t]))
    if opts.get("i") and not opts.get("regex") and rng.random() < 0.6:
        # case-insensitive matching of cwd-relative patterns whose case differs from the names
        k = rng.choice(["path", "exclude"])
        opts[k] = [rng.choice(["*/*.TXT", "*.TXT", "SUB/*", "*/readme", "*/F.TXT", "*/*/*.Txt", "A/**"] +
                              # patterns that match a DIRECTORY itself (pruning must ignore case too)
                              (["SUB", "**/SUB", "**/Sub", "**/A", "**/B", "**/up", "**/D.E"] if k == "exclude" else []))]
    if rng.random() < 0.15:
        subs = [d for d in dirs if "/" in d]
        if subs:
            opts["one_fs"] = True
            opts["mount"] = rng.choice(subs)        # this subtree is presented as another file system
            inside = [f for f in files if f.startswith(opts["mount"] + "/")]
            if inside and rng.random() < 0.7:
                # links that CROSS into that file system: to a file and to a directory in it, placed outside it
                # ("--one-fs does not follow symbolic links crossing file systems" - files included)
                outdirs = [d for d in dirs if not (d == opts["mount"] or d.startswith(opts["mount"] + "/")) and "/." not in d] or [roots[0]]
                d_ = rng.choice(outdirs)
                t_ = rng.choice(inside)
                w.add_symlink(d_ + "/l_xdev", "@ROOT@/" + t_)
                w.add_symlink(d_ + "/l_xdevdir", "@ROOT@/" + opts["mount"])
                if rng.random() < 0.6:
                    opts["L"] = True
    rootargs = list(roots)
    r = rng.random()
    at = rng.randint(0, len(rootargs))     # an inner input path may come before or after the one that contains it
    if r < 0.15:
        rootargs.insert(at, rng.choice(roots))
    elif r < 0.35 and len(dirs) > 1:
        # an inner input path; half of the time one that the walk of the outer one does NOT enter by itself
        # (a hidden directory, or something below one): given explicitly it is scanned, in whatever order
        # (the input path's OWN name must be visible - a hidden input path is not scanned - but an ancestor is hidden)
        inner = [d for d in dirs if "/." in d and not d.rsplit("/", 1)[1].startswith(".") and any(f.startswith(d + "/") for f in files)]
        if rng.random() < 0.5:
            if not inner:
                hd = rng.choice(dirs) + "/.hdir"
                w.add_file(hd + "/f.txt", {"fam": 4000, "len": 5, "flips": []})
                w.add_file(hd + "/sub/k", {"fam": 4001, "len": 50, "flips": []})
                w.add_file(hd + "/sub/deep/m.txt", {"fam": 4002, "len": 5, "flips": []})
                dirs += [hd, hd + "/sub", hd + "/sub/deep"]
                inner = [hd + "/sub"]
            rootargs.insert(at, rng.choice(inner))
        else:
            rootargs.insert(at, rng.choice(dirs))
    elif r < 0.45 and files:
        rootargs.insert(at, rng.choice(files))
    # the input paths may arrive on standard input (--stdin, one per line) instead of as arguments
    if rng.random() < 0.3 and not any("\n" in r_ for r_ in rootargs):
        opts["stdin"] = True
    return {"i": i, "world": w.to_json(), "roots": rootargs, "opts": opts}


def gen_cases(tier, seed):
    for i in range(BUDGET[tier]["n"]):
        yield gen_case(seed, i)


def shrink(case):
    ents = case["world"]["entries"]
    for i, e in enumerate(ents):
        if e["p"] in case["roots"] or e["p"] == case["opts"]["cwd"] or case["opts"]["cwd"].startswith(e["p"] + "/"):
            continue
        mnt_ = case["opts"].get("mount")
        if mnt_ and (e["p"] == mnt_ or mnt_.startswith(e["p"] + "/")):
            continue
        if e["t"] == "d" and any(o["p"].startswith(e["p"] + "/") for o in ents):
            continue
        c = dict(case); c["world"] = {"entries": ents[:i] + ents[i + 1:]}; yield c
    if len(case["roots"]) > 1:
        for i in range(len(case["roots"])):
            c = dict(case); c["roots"] = case["roots"][:i] + case["roots"][i + 1:]
            if c["opts"]["cwd"].split("/")[0] in [r.split("/")[0] for r in c["roots"]]:
                yield c
    for k, v in list(case["opts"].items()):
        if k in ("cwd", "mount") or v in (False, None):
            continue
        c = dict(case); c["opts"] = dict(case["opts"])
        if isinstance(v, bool):
            c["opts"][k] = False
        else:
            c["opts"].pop(k)
        yield c


def opt_args(o, W):
    a = []
    if "depth" in o:
        a += ["--depth", str(o["depth"])]
    if o.get("hidden"):
        a.append("--hidden")
    if o.get("no_ignore"):
        a.append("--no-ignore")
    a += ["--min", str(o.get("min", 0))]
    if "max" in o:
        a += ["--max", str(o["max"])]
    if o.get("L"):
        a.append("-L")
    if o.get("S"):
        a.append("-S")
    if o.get("i"):
        a.append("-i")
    if o.get("regex"):
        a.append("--regex")
    if o.get("one_fs"):
        a.append("--one-fs")
    for k in ("name", "path", "exclude"):
        for v in o.get(k, []):
            a += ["--" + k, v.replace("@W@", W)]
    return a


def make_filter(o, W, cwd):
    flags = re.S | (re.I if o.get("i") else 0)

    def absp(p):
        if o.get("regex"):
            # a regex is absolute when it starts with the root or with `.*`; otherwise the (literal)
            # working directory is prepended to the WHOLE pattern
            p = p.replace("@W@", re.escape(W))
            if p.startswith("/") or p.startswith(".*"):
                return p
            return re.escape(cwd.rstrip("/") + "/") + "(?:" + p + ")"
        p = p.replace("@W@", W)
        if p.startswith("/") or p.startswith("**"):
            return p
        return cwd.rstrip("/") + "/" + p

    def gm(pat, s):
        if o.get("regex"):
            return re.fullmatch(pat, s, flags) is not None
        if o.get("i"):
            return glob_match(pat.lower(), s.lower())
        return glob_match(pat, s)

    def f(path):
        s = path.decode("utf-8", "replace")
        nm = os.path.basename(s)
        if o.get("name") and not any(gm(p, nm) for p in o["name"]):
            return False
        if o.get("path") and not any(gm(absp(p), s) for p in o["path"]):
            return False
        # a directory matched by --exclude is excluded with everything below it (DESIGN 4.x)
        parts = s.split("/")
        for k in range(len(parts), 1, -1):
            anc = "/".join(parts[:k])
            if any(gm(absp(p), anc) for p in o.get("exclude", [])):
                return False
        return True
    def prune(path):
        s = path.decode("utf-8", "replace")
        return any(gm(absp(p), s) or gm(absp(p), s + "/") for p in o.get("exclude", []))
    f.prune = prune
    return f


def rel_(rd, s_):
    return sorted(b2s(ops.relw(rd, p) or p) for p in s_)


def run_case(case):
    o = case["opts"]
    viol = []
    with core.RunDir("c09") as rd:
        World.from_json(case["world"]).materialise(rd.world)
        W = rd.world
        cwd_b = os.path.join(rd.wb(), s2b(o["cwd"]))
        cwd = cwd_b.decode("utf-8")
        roots_abs = [os.path.join(rd.wb(), s2b(r)) for r in case["roots"]]
        flt = make_filter(o, W, cwd)
        labels = None
        dev_of = None
        if o.get("one_fs"):
            # present the subtree opts["mount"] as a different device (seam relabelling of st_dev)
            mnt = os.path.join(rd.wb(), s2b(o["mount"]))
            labels = {}
            for dp, dns, fns in os.walk(mnt):
                for x in [dp] + [os.path.join(dp, f) for f in fns]:
                    st_ = os.lstat(x)
                    if not os.path.islink(x):
                        labels[st_.st_ino] = {"dev": 999}
            real_dev = os.stat(rd.world).st_dev

            def dev_of(p, mnt=mnt):
                rp = os.path.realpath(p)
                return 999 if (rp == mnt or rp.startswith(mnt + b"/")) else real_dev
        exp = model.scan(roots_abs, hidden=o.get("hidden", False), follow=o.get("L", False), report_links=o.get("S", False),
                         depth=o.get("depth"), min_size=o.get("min", 0), max_size=o.get("max"),
                         name_filter=flt, honour_ignore=not o.get("no_ignore", False), prune=flt.prune,
                         one_fs=bool(o.get("one_fs")), dev_of=dev_of)
        exp_set = set(exp)
        args = opt_args(o, W) + ["--rf-over", "0", "-f", "json"]
        env = {"FCLONES_VERIF_DEVICES": "/=ssd:simroot"}
        got_sets = []
        traces = []
        for pool in ("1", "2", "16"):
            rargs = [os.path.relpath(os.path.join(rd.wb(), s2b(r)), cwd_b) if k % 2 else os.path.join(rd.wb(), s2b(r)) for k, r in enumerate(case["roots"])]
            if o.get("stdin"):
                res = ops.group(rd, [], ["--stdin"] + args + ["--threads", "main:" + pool], env=env, cwd=cwd_b, seed=7, labels=labels,
                                stdin=b"".join(r_ + b"\n" for r_ in rargs))
            else:
                res = ops.group(rd, rargs, args + ["--threads", "main:" + pool], env=env, cwd=cwd_b, seed=7, labels=labels)
            traces.append(res.trace)
            if res.timed_out:
                viol.append({"clause": "terminates", "detail": "group hung with main pool %s" % pool})
                break
            if res.rc != 0:
                if b"No input files" in res.err or b"recursive scan is disabled" in res.err and not exp_set:
                    got_sets.append(set())
                    continue
                viol.append({"clause": "group-succeeds", "detail": "pool %s rc=%s %s" % (pool, res.rc, res.err.decode("utf-8", "replace")[-400:])})
                break
            rep = report.parse_json(res.out)
            got_sets.append({p for g in rep.groups for p in g.paths})
            listed = [p for g in rep.groups for p in g.paths]
            if len(listed) != len(set(listed)) and not any(v["clause"] == "listed-once" for v in viol):
                twice = sorted({p for p in listed if listed.count(p) > 1})
                viol.append({"clause": "listed-once", "missed": [], "extra": rel_(rd, twice),
                             "detail": "pool %s: a selected file is listed more than once: %s" % (pool, rel_(rd, twice)[:6])})
        rel = lambda s_: sorted(b2s(ops.relw(rd, p) or p) for p in s_)
        if got_sets:
            g0 = got_sets[0]
            if g0 != exp_set:
                viol.append({"clause": "selection-equals-model", "missed": rel(exp_set - g0), "extra": rel(g0 - exp_set),
                             "detail": "missed %s ; extra %s" % (rel(exp_set - g0)[:8], rel(g0 - exp_set)[:8])})
            for k, gs in enumerate(got_sets[1:]):
                if gs != g0:
                    viol.append({"clause": "pool-size-invariant", "missed": rel(g0 - gs), "extra": rel(gs - g0), "detail": "selection differs between main pool sizes: only-in-1 %s, only-in-other %s" % (rel(g0 - gs)[:6], rel(gs - g0)[:6])})
        for v in viol:
            v["detail"] += " | opts=%s roots=%s" % (o, case["roots"])
        verdict = ",".join(sorted({v["clause"] for v in viol}))
        active = any(o.get(k) for k in ("depth", "hidden", "no_ignore", "min", "max", "L", "S", "name", "path", "exclude")) or "depth" in o
        return {
            "violations": viol,
            "nontrivial": bool(exp_set) and active,
            "sig": ops.trace_sig(rd, traces[:1], verdict + repr(sorted((k, str(v)) for k, v in o.items()))),
            "probes": {"selected": len(exp_set), **{"opt_" + k: 1 for k, v in o.items() if v not in (False, None) and k != "cwd"}},
            "sim_ns": 0,
            "invocations": 3,
            "info": {"opts": o, "roots": case["roots"], "selected": len(exp_set)},
        }


def _regex_alternation_unanchored(case, violation):
    """--regex with a top-level alternation: fclones anchors `^a|b$` instead of `^(?:a|b)$`; the only
    effect accepted here: extra files whose name/path matches the mis-anchored form, nothing missed."""
    o = case["opts"]
    if not o.get("regex") or violation.get("missed"):
        return False
    pats = [p for k in ("name", "path", "exclude") for p in o.get(k, []) if "|" in p]
    if not pats or o.get("path") or o.get("exclude"):
        return False
    for x in violation.get("extra", []):
        nm = os.path.basename(x.encode("latin-1").decode("utf-8", "replace"))
        if not any(re.search("^" + p + "$", nm) for p in pats):
            return False
    return bool(violation.get("extra"))


def _literal_prefix(pat):
    out = ""
    i = 0
    while i < len(pat):
        if pat[i] in "*?[{@+!(":
            break
        if pat[i] == "\\" and i + 1 < len(pat):
            out += pat[i + 1]
            i += 2
            continue
        out += pat[i]
        i += 1
    return out


def _nonascii_prefix_pruning(case, violation):
    """directory pruning compares byte lengths with character counts: with non-ASCII text in the
    literal prefix of a --path pattern (from the pattern itself or from the working directory of a
    relative pattern) directories below that prefix are skipped.  Accepted: only missed files, each
    of them below such a non-ASCII literal prefix."""
    o = case["opts"]
    if o.get("regex") or violation.get("extra") or not violation.get("missed") or not o.get("path") or violation.get("clause") == "listed-once":
        return False
    cwd = o["cwd"].encode("latin-1").decode("utf-8", "replace")
    prefixes = []
    for p in o["path"]:
        if p.startswith("**"):
            continue
        if p.startswith("@W@/"):
            lit = _literal_prefix(p[4:])
        elif p.startswith("/"):
            continue
        else:
            lit = cwd + "/" + _literal_prefix(p)
        if any(ord(ch) > 127 for ch in lit):
            prefixes.append(lit.rsplit("/", 1)[0] if not lit.endswith("/") else lit.rstrip("/"))
    if not prefixes:
        return False
    # with -i the literal prefix is compared without regard to case
    fold = (lambda x: x.casefold()) if o.get("i") else (lambda x: x)
    for m in violation["missed"]:
        mu = m.encode("latin-1").decode("utf-8", "replace")
        if not any(fold(mu).startswith(fold(pre) + "/") for pre in prefixes):
            return False
    return True


# c09-regex-alternation-anchoring was repaired in /repo (4f9f8e1): its predicate is gone, its witness is a
# regression case now (replays/regress/)
def _follow_links_ignore_route(case, violation):
    """-L with ignore files: every differing file is one that SOME ignore rule of the world matches by
    name (the file itself or one of its ancestor directories), i.e. one whose selection depends on the
    route by which it was reached."""
    o = case["opts"]
    if not o.get("L") or violation.get("clause") == "listed-once":
        return False
    diff = list(violation.get("missed", [])) + list(violation.get("extra", []))
    if not diff:
        return False
    # same defect, other route-dependent test: --one-fs compares with the device of the input path the walk
    # started from; a nested mount that is also given as an input path is skipped (and marked visited) when
    # reached from the outer input path first
    if o.get("one_fs") and o.get("mount") and all(x == o["mount"] or x.startswith(o["mount"] + "/") for x in diff) \
            and any(r == o["mount"] or r.startswith(o["mount"] + "/") for r in case["roots"]):
        return True
    if o.get("no_ignore"):
        return False
    rules = []
    for e in case["world"]["entries"]:
        nm_ = e["p"].rsplit("/", 1)[-1]
        if e["t"] == "f" and (nm_ in (".gitignore", ".fdignore") or nm_.startswith(".rules")) and "hex" in e.get("c", {}):
            for line in bytes.fromhex(e["c"]["hex"]).decode("latin-1").split("\n"):
                line = line.strip()
                if line and not line.startswith("#"):
                    rules.append(line.rstrip("/").replace("**/", ""))
    if not rules:
        return False
    import fnmatch
    for x in diff:
        comps = x.split("/")
        if not any(fnmatch.fnmatchcase(c, r) for c in comps for r in rules):
            return False
    return True


KNOWN_PREDICATES = {"c09-nonascii-literal-prefix-pruning": _nonascii_prefix_pruning,
                    "c09-follow-links-route-order": _follow_links_ignore_route}
