"""C14 - a report is internally consistent in every output format.

The same world and configuration is reported in text, JSON, CSV and fdupes format (stdout and
-o FILE); an invariant checker recomputes the header statistics from the body with the documented
replica rule and compares the group structure across formats."""
import os
import random

from .. import core, ops, gen, report, xform
from ..core import T0_NS, b2s, s2b, rule, stable_hash
from ..world import World

ID = "C14"
LEVEL = "exploration"
BUDGET = {"quick": {"n": 440, "wall_s": 420}, "thorough": {"n": 10000, "wall_s": 3300}}
RULE = ("per case: seeded world (families, hard links, symlinks with -S, 1..3 roots) x filter {default, --rf-over k, "
        "--rf-under k, --unique} x {--isolate, -H, transform} x pools, optionally short reads / one unreadable file; "
        "the run is repeated for text, JSON, CSV, fdupes, each to stdout or -o FILE; invariants: header counts and "
        "bytes == recomputation from the body, group header count == listed paths, non-increasing file size, absolute "
        "paths, isolate roots contiguous and in the order given, identical group structure in all four formats. "
        "non-trivial = body has >= 1 group; distinct = distinct trace signatures")
ASSUMPTIONS = ["redundant count without --isolate: both `files - rf` and the sub-group rule are accepted when a group contains hard links (DESIGN 4.x)"]


def gen_case(seed, i):
    rng = random.Random(stable_hash(seed, ID, i))
    cfg = gen.gen_cfg(rng, allow_cache=False)
    nroots = rng.choice([1, 2, 3])
    world, roots = gen.gen_world(rng, cfg, nroots=nroots, hostile=rng.random() < 0.4, max_files=rng.choice([8, 16, 24]),
                                 families=rng.randint(1, 5), min_len=0)
    f = {}
    r = rng.random()
    if r < 0.2:
        f["rf_over"] = rng.choice([0, 1, 2])
    elif r < 0.35:
        f["rf_under"] = rng.choice([2, 3, 4])
    elif r < 0.5:
        f["unique"] = True
    f["isolate"] = nroots >= 2 and rng.random() < 0.35
    if f["isolate"] and f.get("rf_over", 1) >= nroots:
        f.pop("rf_over", None)
        if nroots < 2:
            f["isolate"] = False
    if f["isolate"] and "rf_under" in f and nroots < f["rf_under"]:
        f["rf_under"] = nroots
    f["H"] = rng.random() < 0.2
    f["S"] = (not f["isolate"]) and rng.random() < 0.2
    if f["isolate"] and rng.random() < 0.15:
        # -S with --isolate, and one input path that is itself a symbolic link to a FILE (a copy of a scanned file
        # stored outside the roots): a root of its own, reported as the link
        regs = [e for e in world.entries if e["t"] == "f"]
        if regs:
            src = rng.choice(regs)
            f["S"] = True
            world.entries = [e for e in world.entries if e["t"] != "l"]     # no other links: one thing at a time
            world.add_file("store/lt", dict(src["c"]))
            world.add_symlink("lroot", "store/lt")
            roots = list(roots)
            roots.insert(rng.randint(0, len(roots) - 1), "lroot")
    if rng.random() < 0.15:
        t = rng.choice([x for x in xform.TRANSFORMS if "--in-place" not in x[1]])
        cfg["transform"] = t[0]
        cfg["transform_flags"] = list(t[1])
        for e in world.entries:
            if e["t"] == "f":
                e["c"]["text"] = 1
    return {"i": i, "cfg": cfg, "world": world.to_json(), "roots": roots, "filter": f,
            # how each input path is written on the command line (the statistics and the path order must follow the
            # roots whatever their spelling): absolute, relative to the working directory, ./x, x/, x/../x
            "spell": [rng.choice(["abs", "abs", "rel", "dot", "slash", "dotdot"]) for _ in roots],
            # the command is started somewhere else and told with --base-dir where relative input paths live;
            # a relative -o FILE stays a file of the directory the command was started in
            "basedir": rng.choice([None, None, None, "abs", "rel"]),
            "min0": rng.random() < 0.25, "outs": [rng.random() < 0.5 for _ in range(4)],
            "fault": rng.choice(["none", "none", "short", "unreadable"]), "seam_seed": rng.randint(1, 10**9)}


def gen_cases(tier, seed):
    for i in range(BUDGET[tier]["n"]):
        yield gen_case(seed, i)


def shrink(case):
    ents = case["world"]["entries"]
    for i, e in enumerate(ents):
        if e["p"] in case["roots"]:
            continue
        if e["t"] == "d" and any(o["p"].startswith(e["p"] + "/") for o in ents):
            continue
        if any(o.get("to") == e["p"] and o["t"] == "h" for o in ents):
            continue
        c = dict(case); c["world"] = {"entries": ents[:i] + ents[i + 1:]}; yield c
    if case["fault"] != "none":
        c = dict(case); c["fault"] = "none"; yield c
    if case["cfg"].get("transform"):
        c = dict(case); c["cfg"] = dict(case["cfg"], transform=None); yield c
    for k in ("H", "S"):
        if case["filter"].get(k):
            c = dict(case); c["filter"] = dict(case["filter"]); c["filter"][k] = False; yield c


def fargs(f):
    a = []
    if "rf_over" in f:
        a += ["--rf-over", str(f["rf_over"])]
    if "rf_under" in f:
        a += ["--rf-under", str(f["rf_under"])]
    if f.get("unique"):
        a.append("--unique")
    for k, o in (("isolate", "--isolate"), ("H", "-H"), ("S", "-S")):
        if f.get(k):
            a.append(o)
    return a


def subgroups(paths, roots, by_id):
    """documented sub-group rule in report order"""
    pre = [[] for _ in roots]
    ids = {}
    order = []
    singles = []
    for p in paths:
        idx = None
        for k, r in enumerate(roots):
            if p == r or p.startswith(r.rstrip(b"/") + b"/"):
                idx = k
                break
        if idx is not None:
            pre[idx].append(p)
        elif by_id:
            try:
                st = os.stat(p)
                key = (st.st_dev, st.st_ino)
            except OSError:
                key = ("p", p)
            if key not in ids:
                ids[key] = []
                order.append(key)
            ids[key].append(p)
        else:
            pre.append([p])
    return [s for s in pre if s] + [ids[k] for k in order]


def check_invariants(rep, case, rd, V, tag):
    f = case["filter"]
    roots = [os.path.join(rd.wb(), s2b(r)) for r in case["roots"]] if f.get("isolate") else []
    by_id = not f.get("H")
    st = rep.header.get("stats")
    groups = rep.groups
    if st:
        if st["group_count"] != len(groups):
            V("header-group-count", "%s: header says %d groups, body has %d" % (tag, st["group_count"], len(groups)))
        tot = sum(len(g.paths) for g in groups)
        if st["total_file_count"] != tot:
            V("header-total-files", "%s: header says %d files, body lists %d" % (tag, st["total_file_count"], tot))
        size = sum(g.len * len(g.paths) for g in groups)
        if st["total_file_size"] != size:
            V("header-total-bytes", "%s: header says %d bytes, body sums to %d" % (tag, st["total_file_size"], size))
        under = f.get("unique") or "rf_under" in f
        rf_under = 2 if f.get("unique") else f.get("rf_under")
        rf = max(f.get("rf_over", 1), 1)
        red_lo = red_hi = mis = 0
        red_lo_b = red_hi_b = mis_b = 0
        for g in groups:
            sg = subgroups(g.paths, roots, by_id)
            if under:
                m = max(0, rf_under - len(sg))
                mis += m
                mis_b += m * g.len
            else:
                by_sub = sum(len(s) for s in sg[min(rf, len(sg)):])
                fast = max(0, len(g.paths) - rf)
                if roots:
                    lo = hi = by_sub
                else:
                    lo, hi = min(by_sub, fast), max(by_sub, fast)
                red_lo += lo; red_hi += hi
                red_lo_b += lo * g.len; red_hi_b += hi * g.len
        if not (red_lo <= st["redundant_file_count"] <= red_hi):
            V("header-redundant", "%s: header says %d redundant files, recomputed %d..%d" % (tag, st["redundant_file_count"], red_lo, red_hi))
        if not (red_lo_b <= st["redundant_file_size"] <= red_hi_b):
            V("header-redundant", "%s: header says %d redundant bytes, recomputed %d..%d" % (tag, st["redundant_file_size"], red_lo_b, red_hi_b))
        if st["missing_file_count"] != mis or st["missing_file_size"] != mis_b:
            V("header-missing", "%s: header says %d missing files / %d bytes, recomputed %d / %d" % (tag, st["missing_file_count"], st["missing_file_size"], mis, mis_b))
    for g in groups:
        if g.count != len(g.paths):
            V("group-count", "%s: group header count %d != %d listed paths" % (tag, g.count, len(g.paths)))
        for p in g.paths:
            if not p.startswith(b"/"):
                V("paths-absolute", "%s: relative path %r" % (tag, b2s(p)))
        if len(set(g.paths)) != len(g.paths):
            V("paths-distinct", "%s: a path is listed twice in one group" % tag)
        if roots:
            idx = []
            for p in g.paths:
                k = next((k for k, r in enumerate(roots) if p == r or p.startswith(r.rstrip(b"/") + b"/")), len(roots))
                idx.append(k)
            if idx != sorted(idx):
                V("isolate-roots-contiguous", "%s: paths of the roots are not contiguous/in the order given: %s" % (tag, idx))
    lens = [g.len for g in groups]
    if lens != sorted(lens, reverse=True):
        V("groups-by-decreasing-size", "%s: group sizes not non-increasing: %s" % (tag, lens[:20]))


def run_case(case):
    cfg = case["cfg"]
    viol = []
    with core.RunDir("c14") as rd:
        World.from_json(case["world"]).materialise(rd.world)
        roots = [os.path.join(rd.wb(), s2b(r)) for r in case["roots"]]
        env = gen.cfg_env(cfg)
        base = gen.cfg_args(cfg) + fargs(case["filter"]) + (["--min", "0"] if case["min0"] else [])
        plan = []
        if case["fault"] == "short":
            plan = [rule(kind="read", act="shortrnd", prefix=rd.world, count="inf", proc="any")]
        elif case["fault"] == "unreadable":
            files = sorted(e["p"] for e in case["world"]["entries"] if e["t"] == "f")
            if files:
                # permission errors belong to the inode: every hard link of the chosen file fails alike
                victim = os.lstat(ops.absw(rd, files[len(files) // 2])).st_ino
                for e in case["world"]["entries"]:
                    try:
                        same = e["t"] in ("f", "h", "l") and os.stat(ops.absw(rd, e["p"])).st_ino == victim
                    except OSError:
                        same = False
                    if same:
                        plan.append(rule(kind="open", path=b2s(ops.absw(rd, e["p"])), act="errno:EACCES", count="inf"))

        def V(clause, detail):
            viol.append({"clause": clause, "detail": detail + " | filter=%s transform=%r fault=%s" % (case["filter"], cfg.get("transform"), case["fault"])})

        reps = {}
        traces = []
        for k, fmt in enumerate(["default", "json", "csv", "fdupes"]):
            args = base + ["-f", fmt]
            outp = os.path.join(rd.base, "out.%s" % fmt)
            bd = case.get("basedir")
            if bd:
                args = ["--base-dir", rd.world if bd == "abs" else os.path.relpath(rd.world, rd.base)] + args
            if case["outs"][k]:
                args += ["-o", os.path.basename(outp) if bd else outp]
                if (case.get("i", 0) + k) % 2:
                    # the usual workflow: the output file exists already and holds an older, LONGER report
                    # (written by an earlier run over a bigger tree) - the new report must replace it
                    with open(outp, "wb") as f:
                        f.write(b"# Report by fclones 0.0.0\n" + b"0123456789abcdef0123456789abcdef, 1 B (1 B) * 2:\n    /old/a\n    /old/b\n" * 4000)
            sroots = []
            for r_, how in zip(case["roots"], case.get("spell") or ["abs"] * len(case["roots"])):
                rb = s2b(r_)
                sroots.append({"abs": os.path.join(rd.wb(), rb), "rel": b"./" + rb if rb.startswith(b"-") else rb, "dot": b"./" + rb, "slash": b"./" + rb + b"/",
                               "dotdot": b"./" + rb + b"/../" + rb}[how])
            res = ops.group(rd, sroots, args, env=env, seed=case["seam_seed"], plan=plan, now_ns=T0_NS, cwd=rd.base if bd else rd.world)
            traces.append(res.trace)
            if res.timed_out:
                V("terminates", "%s run hung" % fmt)
                continue
            if res.rc != 0:
                continue
            data = open(outp, "rb").read() if case["outs"][k] else res.out
            try:
                rep = {"default": report.parse_text, "json": report.parse_json, "csv": report.parse_csv, "fdupes": report.parse_fdupes}[fmt](data)
            except (report.ReportError, Exception) as e:
                V("format-parses", "%s output does not parse: %s" % (fmt, e))
                continue
            reps[fmt] = rep
            if fmt in ("default", "json"):
                check_invariants(rep, case, rd, V, fmt)
        if "json" in reps:
            ref = [(g.len, g.hash, g.paths) for g in reps["json"].groups]
            for fmt in ("default", "csv"):
                if fmt in reps:
                    got = [(g.len, g.hash, g.paths) for g in reps[fmt].groups]
                    if got != ref:
                        k = next((j for j in range(min(len(got), len(ref))) if got[j] != ref[j]), min(len(got), len(ref)))
                        V("formats-agree", "%s and json describe different groups (first difference at group %d: %r vs %r)" % (
                            fmt, k, got[k] if k < len(got) else None, ref[k] if k < len(ref) else None))
            if "fdupes" in reps:
                got = [g.paths for g in reps["fdupes"].groups]
                if got != [g[2] for g in ref]:
                    V("formats-agree", "fdupes and json describe different groups (%d vs %d groups)" % (len(got), len(ref)))
            if "csv" in reps:
                for g in reps["csv"].groups:
                    if g.count != len(g.paths):
                        V("group-count", "csv: count column %d != %d paths" % (g.count, len(g.paths)))
        verdict = ",".join(sorted({v["clause"] for v in viol}))
        ng = len(reps["json"].groups) if "json" in reps else 0
        return {
            "violations": viol,
            "nontrivial": ng > 0,
            "sig": ops.trace_sig(rd, traces[:1], verdict + repr(sorted(case["filter"].items()))),
            "faults": ops.fault_counts(traces),
            "probes": {"groups": ng, "formats_parsed": len(reps), "to_file": sum(case["outs"]),
                       **{"filter_" + k: 1 for k, v in case["filter"].items() if v not in (False, None)}},
            "sim_ns": 0,
            "invocations": 4,
            "info": {"filter": case["filter"], "groups": ng, "transform": cfg.get("transform"), "fault": case["fault"]},
        }
