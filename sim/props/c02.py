"""C02 - deduplication never destroys the last copy of any content.

Two real processes connected only by a real report: `group` (text or JSON) at simulated T0,
then one of remove / link / link --soft / dedupe / move a simulated hour later, over worlds with
several groups, hard-link sets, symlinks reported with -S, --isolate roots and hostile names."""
import os
import random

from .. import core, ops, gen, report
from ..core import T0_NS, b2s, s2b, rule, stable_hash
from ..world import World, inventory, read_through, contents_of, inv_brief

ID = "C02"
LEVEL = "exploration"
BUDGET = {"quick": {"n": 1500, "wall_s": 400}, "thorough": {"n": 30000, "wall_s": 3300}}
RULE = ("per case: world of 1..5 duplicate families over 1..3 roots with hard-link sets, symlinks (reported with -S "
        "in ~30%), name alphabets {plain, whitespace, quotes/$, control chars incl. newline, glob chars, non-ASCII, "
        "invalid UTF-8}; group options {--isolate, -S, -H, --rf-over k, --min 0}; report format text|json; one of 5 "
        "operations with options drawn from {-n N, chained --priority, --name/--path/--keep-name/--keep-path globs, "
        "--no-lock}; oracle on inventories before/after: content conservation, max(1,n) untouched replicas per group, "
        "unlisted paths untouched, original paths read back (link/dedupe), bytes at mapped target (move). "
        "non-trivial = the real run changed at least one path; distinct = distinct trace signatures")
ASSUMPTIONS = [
    "--match-links together with --symbolic-links is never generated (documented dangerous)",
    "all mtimes lie before the simulated report time; the dedupe run happens one simulated hour later",
]
PRIORITIES = ["top", "bottom", "newest", "oldest", "most-recently-modified", "least-recently-modified",
              "most-recently-accessed", "least-recently-accessed", "most-recent-status-change",
              "least-recent-status-change", "most-nested", "least-nested"]


def gen_case(seed, i):
    rng = random.Random(stable_hash(seed, ID, i))
    cfg = gen.gen_cfg(rng, small=True, allow_cache=False)
    cfg["threads"] = rng.choice([["1"], [], ["2"]])
    nroots = rng.choice([1, 1, 2, 3])
    world, roots = gen.gen_world(rng, cfg, nroots=nroots, hostile=rng.random() < 0.6,
                                 max_files=rng.choice([6, 12, 20]), families=rng.randint(1, 5), min_len=0,
                                 hostile_roots=rng.random() < 0.3)
    gflags = []
    isolate = nroots >= 2 and rng.random() < 0.4
    if isolate:
        gflags.append("--isolate")
    sym = rng.random() < 0.3
    if sym:
        gflags.append("-S")
    elif rng.random() < 0.2:
        gflags.append("-H")
    rf = None
    if rng.random() < 0.2 and not isolate:
        rf = rng.choice([0, 1, 2])
        gflags += ["--rf-over", str(rf)]
    if rng.random() < 0.2:
        gflags += ["--min", "0"]
    dargs = []
    n = None
    if rng.random() < 0.3:
        n = rng.choice([1, 2, 3])
        dargs += ["-n", str(n)]
    for _ in range(rng.choice([0, 0, 1, 2])):
        dargs += ["--priority", rng.choice(PRIORITIES)]
    r = rng.random()
    if r < 0.15:
        dargs += ["--name", rng.choice(["*", "a*", "*.txt", "?", "*b*"])]
    elif r < 0.3:
        dargs += ["--keep-name", rng.choice(["*", "a*", "*.txt", "?", "*b*"])]
    elif r < 0.4:
        dargs += ["--path", rng.choice(["/**", "/**/r1/**", "**/r2/*"])]
    elif r < 0.5:
        dargs += ["--keep-path", rng.choice(["/**/r1/**", "**/r2/*", "/**"])]
    elif r < 0.6:
        # a keep pattern and a drop pattern together, with a quota of 2 or 3 replicas
        dargs += [rng.choice(["--name", "--path"]), rng.choice(["*", "a*", "*b*", "/**"])]
        dargs += [rng.choice(["--keep-name", "--keep-path"]), rng.choice(["a*", "*.txt", "?", "/**/r1/**"])]
        if n is None or n < 2:
            dargs = [x for k2, x in enumerate(dargs) if not (x == "-n" or (k2 > 0 and dargs[k2 - 1] == "-n"))]
            n = rng.choice([2, 3])
            dargs += ["-n", str(n)]
    if rng.random() < 0.2:
        dargs += ["--no-lock"]
    fmt_ = rng.choice(["default", "json"])
    op_ = rng.choice(["link", "softlink"]) if (sym and rng.random() < 0.5) else rng.choice(ops.OPS)
    sseed_ = rng.randint(1, 10**9)
    # the last root lies on a second device (the seam presents its inodes with another st_dev): hard links and
    # reflinks cannot cross devices, a class with members on both is handled per device - with a class that has
    # several members on each, and mostly with the operations concerned and a quota above one
    two_devs = nroots >= 2 and not isolate and rng.random() < 0.25
    if two_devs:
        ln_ = rng.choice([1, 40, 3000])
        for k_, r_ in enumerate([roots[0]] * rng.randint(2, 3) + [roots[-1]] * rng.randint(2, 3)):
            world.add_file("%s/xd%d" % (r_, k_), {"fam": 700, "len": ln_, "flips": []})
        if rng.random() < 0.7:
            op_ = rng.choice(["link", "dedupe"])
        if rng.random() < 0.6:
            dargs = [x for k2, x in enumerate(dargs) if not (x == "-n" or (k2 > 0 and dargs[k2 - 1] == "-n"))]
            n = rng.choice([2, 3, 3, 4])
            dargs += ["-n", str(n)]
    return {"i": i, "cfg": cfg, "world": world.to_json(), "roots": roots, "gflags": gflags, "fmt": fmt_, "two_devs": two_devs,
            # reports with symbolic links as members: the link operations are where a link as the retained
            # member matters, so they get half of those cases
            "op": op_, "dargs": dargs, "n": n, "rf": rf, "seam_seed": sseed_}


def gen_cases(tier, seed):
    for i in range(BUDGET[tier]["n"]):
        yield gen_case(seed, i)


def shrink(case):
    ents = case["world"]["entries"]
    for i, e in enumerate(ents):
        if e["t"] == "d" and any(o["p"].startswith(e["p"] + "/") for o in ents):
            continue
        if e["p"] in case["roots"]:
            continue
        if any(o.get("to") == e["p"] and o["t"] == "h" for o in ents):
            continue
        c = dict(case); c["world"] = {"entries": ents[:i] + ents[i + 1:]}; yield c
    if case["dargs"]:
        c = dict(case); c["dargs"] = []; c["n"] = None; yield c
    for fl in list(case["gflags"]):
        if fl.startswith("-") and fl not in ("--rf-over", "--min") and not fl.isdigit():
            c = dict(case); c["gflags"] = [x for x in case["gflags"] if x != fl]
            if "--rf-over" not in c["gflags"] or True:
                yield c
    if case["fmt"] != "json":
        c = dict(case); c["fmt"] = "json"; yield c
    if case["cfg"]["threads"] != ["1"]:
        c = dict(case); c["cfg"] = dict(case["cfg"], threads=["1"]); yield c
    # plain names
    import re
    if any(re.search(r"[^A-Za-z0-9/._]", e["p"]) for e in ents):
        m = {}
        def plain(p):
            parts = p.split("/")
            out = []
            for k, part in enumerate(parts):
                key = "/".join(parts[:k + 1])
                if key not in m:
                    m[key] = part if re.fullmatch(r"[A-Za-z0-9._]+", part) else "p%d" % len(m)
                out.append(m[key])
            return "/".join(out)
        c = dict(case)
        ne = []
        for e in ents:
            e2 = dict(e); e2["p"] = plain(e["p"])
            if e["t"] == "h":
                e2["to"] = plain(e["to"])
            if e["t"] == "l":
                if e["to"].startswith("@ROOT@/"):
                    e2["to"] = "@ROOT@/" + plain(e["to"][7:])
                else:
                    continue  # relative link text cannot be renamed safely
            ne.append(e2)
        c["world"] = {"entries": ne}
        yield c


def replicas_of(paths, inv_before, rd, case):
    """partition of a reported group's paths into replicas (documented rule)"""
    isolate = "--isolate" in case["gflags"]
    match_links = "-H" in case["gflags"]
    reps = {}
    for p in paths:
        rel = ops.relw(rd, p)
        if isolate:
            key = None
            for r in case["roots"]:
                if rel is not None and (rel == s2b(r) or rel.startswith(s2b(r) + b"/")):
                    key = ("root", r)
                    break
            if key is None:
                key = ("path", p)
        elif match_links:
            key = ("path", p)
        else:
            try:
                st = os.stat(p)
                key = ("id", st.st_dev, st.st_ino)
            except OSError:
                key = ("path", p)
        reps.setdefault(key, []).append(p)
    return list(reps.values())


def run_case(case):
    cfg = case["cfg"]
    viol = []
    with core.RunDir("c02") as rd:
        World.from_json(case["world"]).materialise(rd.world)
        os.makedirs(os.path.join(rd.world, "T"), exist_ok=True)
        roots = [os.path.join(rd.wb(), s2b(r)) for r in case["roots"]]
        env = gen.cfg_env(cfg)
        gargs = gen.cfg_args(cfg) + case["gflags"] + (["-f", "json"] if case["fmt"] == "json" else [])
        labels = None
        if case.get("two_devs"):
            labels = {}
            for dp_, dns_, fns_ in os.walk(roots[-1]):
                for x_ in [dp_] + [os.path.join(dp_, f_) for f_ in fns_]:
                    if not os.path.islink(x_):
                        labels[os.lstat(x_).st_ino] = {"dev": 7002}
        g = ops.group(rd, roots, gargs, env=env, seed=case["seam_seed"], now_ns=T0_NS, labels=labels)
        if g.rc != 0 or g.timed_out:
            return {"violations": [], "nontrivial": False, "sig": None, "probes": {"group_failed": 1}, "invocations": 1,
                    "info": {"group_rc": g.rc, "err": g.err.decode("utf-8", "replace")[-200:]}}
        # what group reported, parsed by the driver's own parser (JSON twin run for text reports:
        # the text format is what C10 judges; here the group structure comes from a second JSON run)
        if case["fmt"] == "json":
            rep = report.parse_json(g.out)
        else:
            gj = ops.group(rd, roots, gargs + ["-f", "json"], env=env, seed=case["seam_seed"], now_ns=T0_NS, labels=labels)
            rep = report.parse_json(gj.out)
        if case["op"] == "move" and case["i"] % 3 == 0:
            # something unrelated already lives at the mapped location of one listed file
            listed_abs = sorted(p for grp in rep.groups for p in grp.paths)
            if listed_abs:
                victim = listed_abs[case["i"] % len(listed_abs)]
                tgt = os.path.join(rd.wb(), b"T") + victim
                try:
                    os.makedirs(os.path.dirname(tgt), exist_ok=True)
                    with open(tgt, "wb") as f:
                        f.write(b"unrelated pre-existing file %d\n" % case["i"])
                except OSError:
                    pass
        before = inventory(rd.world)
        orig = {p: read_through(rd.world, p) for p, e in before.items() if e.type in ("f", "l")}
        # replica structure of every reported group, computed before anything changes
        groups = []
        for grp in rep.groups:
            groups.append((grp, replicas_of(grp.paths, before, rd, case)))
        res = ops.dedupe(rd, case["op"], g.out, extra=case["dargs"], target=os.path.join(rd.world, "T"), env=env,
                         now_ns=T0_NS + 3600 * 10**9, seed=case["seam_seed"] + 1, labels=labels)
        after = inventory(rd.world)
        op = case["op"]

        def V(clause, detail, paths=()):
            viol.append({"clause": clause, "paths": [b2s(p) for p in paths], "detail": "%s | op=%s dargs=%s gflags=%s fmt=%s | stderr=%s | before=%s | after=%s" % (
                detail, op, case["dargs"], case["gflags"], case["fmt"], res.err.decode("utf-8", "replace")[-500:],
                inv_brief(before), inv_brief(after))})

        if res.timed_out:
            V("terminates", "dedupe hung")
        if res.panicked():
            V("no-panic", "dedupe panicked")
        listed = set()
        for grp in rep.groups:
            for p in grp.paths:
                r = ops.relw(rd, p)
                if r is not None:
                    listed.add(r)
        # (a) content conservation
        lost = contents_of(before) - contents_of(after)
        if lost:
            victims = [b2s(p) for p, e in before.items() if e.type == "f" and e.sha in lost]
            V("content-conserved", "contents %s (of %s) are stored in no regular file any more" % (sorted(x[:8] for x in lost), victims),
              [p for p, e in before.items() if e.type == "f" and e.sha in lost])
        # (c) unlisted paths untouched
        for p, e in before.items():
            if e.type == "d" or p in listed or p.startswith(b"T/") or p == b"T":
                continue
            a = after.get(p)
            if a is None or not e.untouched(a):
                V("unlisted-untouched", "path %r is not in the report but changed: %r -> %r" % (b2s(p), e, a))
        # (b) replicas left untouched
        n_eff = case["n"] if case["n"] is not None else (case["rf"] if case["rf"] is not None else 1)
        need_n = max(1, n_eff)
        for grp, reps in groups:
            untouched = 0
            for rp in reps:
                ok = True
                for p in rp:
                    r = ops.relw(rd, p)
                    if r is None or r not in before or r not in after or not before[r].untouched(after[r]):
                        ok = False
                if ok:
                    untouched += 1
            need = min(need_n, len(reps))
            if untouched < need:
                V("replicas-untouched", "group %s: %d replica(s) untouched, need %d (n=%s, %d replicas: %s)" % (
                    grp.hash[:8], untouched, need, n_eff, len(reps), [[b2s(ops.relw(rd, p) or p) for p in r_] for r_ in reps]),
                  [ops.relw(rd, p) or p for r_ in reps for p in r_])
        # (d) original paths read back
        if op in ("link", "softlink", "dedupe"):
            for r in sorted(listed):
                if r not in before:
                    continue
                now = read_through(rd.world, r)
                if now != orig.get(r):
                    V("paths-read-back", "after %s path %r does not read back its former bytes (%r -> %r)" % (
                        op, b2s(r), None if orig.get(r) is None else len(orig[r]), None if now is None else len(now)), [r])
        # (e) move: bytes at the mapped location
        if op == "move":
            for r in sorted(listed):
                if r in before and r not in after and before[r].type == "f":
                    t = after.get(b"T" + rd.wb() + b"/" + r)
                    if t is None or t.type != "f" or t.sha != before[r].sha:
                        V("moved-bytes-at-target", "moved %r but its bytes are not at the mapped location under the target (%r)" % (b2s(r), t), [r])
                elif r in before and r not in after and before[r].type == "l" and orig.get(r) is not None:
                    # a symbolic link listed as a member (-S): what it read before must be readable at the mapped location
                    now = read_through(rd.world, b"T" + rd.wb() + b"/" + r)
                    if now != orig[r]:
                        V("moved-bytes-at-target", "moved the symbolic link %r; at the mapped location under the target it no longer reads its bytes (%s)" % (
                            b2s(r), "dangling" if now is None else "%d other bytes" % len(now)), [r])
        changed = [p for p in before if before[p].type != "d" and (p not in after or not before[p].untouched(after[p]))]
        verdict = ",".join(sorted({v["clause"] for v in viol}))
        return {
            "violations": viol,
            "nontrivial": bool(changed),
            "sig": ops.trace_sig(rd, [res.trace], verdict),
            "faults": {},
            "probes": {"paths_changed": len(changed), "groups": len(rep.groups), "op_" + op: 1, "fmt_" + case["fmt"]: 1,
                       "hostile_names": int(any(not p.replace(b"/", b"").replace(b".", b"").replace(b"_", b"").isalnum() for p in listed)),
                       "isolate": int("--isolate" in case["gflags"]), "symlink_members": int("-S" in case["gflags"])},
            "sim_ns": 3600 * 10**9,
            "invocations": 3 if case["fmt"] != "json" else 2,
            "info": {"op": op, "fmt": case["fmt"], "gflags": case["gflags"], "dargs": case["dargs"], "groups": len(rep.groups),
                     "changed": len(changed), "rc": res.rc},
        }


# ----------------------------------------------------------------------------- known findings

def _symlink_across_isolate_roots(case, violation):
    """`group -S --isolate`: a symbolic link and the file it points to lie under different input
    roots, so they count as two replicas; the target (and with it every other dropped member of the
    group, which is linked to the retained link) is then dropped/replaced while the link is retained.
    Accepted only when every violating path belongs to the content class of such a link's target."""
    key, bad_classes = cross_root_link_classes(case)
    if not bad_classes:
        return False
    paths = violation.get("paths", [])
    if violation["clause"] == "replicas-untouched":
        return any(key.get(p) in bad_classes for p in paths)
    return bool(paths) and all(key.get(p) in bad_classes for p in paths)


def cross_root_link_classes(case):
    """-> ({path: content key}, {content keys of files that a symbolic link under ANOTHER isolate root points
    to}); empty unless the report was made with both -S and --isolate"""
    if "--isolate" not in case["gflags"] or "-S" not in case["gflags"]:
        return {}, set()
    import posixpath
    from ..world import content_key
    ents = case["world"]["entries"]
    roots = case["roots"]

    def root_of(p):
        return next((r for r in roots if p == r or p.startswith(r + "/")), None)

    key = {}
    for e in ents:
        if e["t"] == "f":
            key[e["p"]] = content_key(e["c"])
    for e in ents:
        if e["t"] == "h" and e["to"] in key:
            key[e["p"]] = key[e["to"]]
    links = {}
    for e in ents:
        if e["t"] == "l":
            to = e["to"]
            tgt = to[7:] if to.startswith("@ROOT@/") else (None if to.startswith("/") else posixpath.normpath(posixpath.join(posixpath.dirname(e["p"]), to)))
            if tgt in key:
                links[e["p"]] = tgt
                key[e["p"]] = key[tgt]
    bad_classes = {key[t] for l, t in links.items() if root_of(t) is not None and root_of(l) is not None and root_of(t) != root_of(l)}
    return key, bad_classes


def _moved_relative_symlink(case, violation):
    """`group -S` lists symbolic links as members; `move` renames the link itself: a relative link no longer
    resolves from its mapped location, and an absolute one dangles when its target is moved in the same run.
    Accepted: op move, -S, clause moved-bytes-at-target, every path named by the violation is a symbolic
    link of the world."""
    if case["op"] != "move" or "-S" not in case["gflags"] or violation["clause"] != "moved-bytes-at-target":
        return False
    links = {e["p"] for e in case["world"]["entries"] if e["t"] == "l"}
    paths = violation.get("paths", [])
    return bool(paths) and all(p in links for p in paths)


KNOWN_PREDICATES = {"c02-symlink-and-target-in-different-isolate-roots": _symlink_across_isolate_roots,
                    "c02-moved-relative-symlink-dangles": _moved_relative_symlink}
