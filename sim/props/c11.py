"""C11 - the dry-run script is exactly what a real run does.

dry-run -> script S; `bash S` on the tree vs the real run on an identically rebuilt tree
(remove, link, link --soft: same final tree up to inode renaming); for all five operations the
multiset of (kind, source, target) parsed from S by bash itself equals the seam trace of the real
run; summaries equal; S identical under pool sizes 1/2/16 with seeded stat delays."""
import os
import random
import shutil
import subprocess

from .. import core, ops, gen, report
from ..core import T0_NS, b2s, s2b, rule, stable_hash
from ..world import World, inventory

ID = "C11"
LEVEL = "exploration"
BUDGET = {"quick": {"n": 900, "wall_s": 420}, "thorough": {"n": 8000, "wall_s": 3300}}
RULE = ("per case: world as in C02 (hostile names incl. quotes, $, newlines, invalid UTF-8; hard links; several roots) x "
        "operation x options (-n, --priority, patterns); the dry-run script is (1) executed by bash on the tree and "
        "compared with the real run on a rebuilt identical tree (remove/link/link --soft), (2) tokenised by bash and "
        "compared as a multiset of operations with the seam trace of the real run (all five), (3) compared across "
        "RAYON_NUM_THREADS 1/2/16 with seeded stat delays (identical modulo temp suffixes); summaries N files / bytes "
        "equal. non-trivial = script has >= 1 operation; distinct = distinct trace signatures")
ASSUMPTIONS = ["bash is the reference shell; temp-file suffixes are masked", "bash-equivalence of the final tree is required for remove and link (hard/soft) only, as the property says"]
REAL_VS_STUB = {"shell": "real bash executes / tokenises the printed script"}

TOKENISER = r'''
while IFS= read -r line; do
  [ -z "$line" ] && continue
  eval "set -- $line"
  printf '%s\0' "$#" "$@"
done
'''


def gen_case(seed, i):
    rng = random.Random(stable_hash(seed, ID, i))
    cfg = gen.gen_cfg(rng, small=True, allow_cache=False)
    cfg["threads"] = ["1"]
    nroots = rng.choice([1, 2, 3])
    world, roots = gen.gen_world(rng, cfg, nroots=nroots, hostile=rng.random() < 0.7, max_files=rng.choice([6, 12, 20]),
                                 families=rng.randint(1, 4), min_len=1, hostile_roots=rng.random() < 0.3)
    if rng.random() < 0.15:
        # sparse duplicates: length and allocated size differ by orders of magnitude (byte totals must agree anyway)
        n_ = rng.choice([200000, 70000])
        for k_ in range(rng.choice([2, 3])):
            world.entries.append({"t": "f", "p": "%s/sparse%d" % (roots[k_ % len(roots)], k_), "c": {"sparse": n_}})
    gflags = []
    if nroots >= 2 and rng.random() < 0.3:
        gflags.append("--isolate")
    # reports "as in C02": symbolic links as members (-S) or every hard link listed (-H)
    r = rng.random()
    if r < 0.3:
        gflags.append("-S")
    elif r < 0.45:
        gflags.append("-H")
    dargs = []
    if rng.random() < 0.3:
        dargs += ["-n", str(rng.choice([1, 2]))]
    for _ in range(rng.choice([0, 0, 1, 2])):
        dargs += ["--priority", rng.choice(["top", "newest", "most-nested", "least-recently-modified", "bottom"])]
    if rng.random() < 0.2:
        dargs += ["--keep-name", rng.choice(["a*", "*.txt", "*"])]
    return {"i": i, "cfg": cfg, "world": world.to_json(), "roots": roots, "gflags": gflags, "dargs": dargs,
            "op": rng.choice(["remove", "remove", "link", "link", "softlink", "softlink", "move", "move", "dedupe"]),
            # move only: every rename fails with EXDEV in the REAL run (a target on a file system the mount list does
            # not know: bind mount, tmpfs) - the announced moves must still happen (by copy) and be counted
            "move_exdev": rng.random() < 0.4,
            "fmt": rng.choice(["default", "json"]), "seam_seed": rng.randint(1, 10**9)}


def gen_cases(tier, seed):
    for i in range(BUDGET[tier]["n"]):
        yield gen_case(seed, i)


def shrink(case):
    ents = case["world"]["entries"]
    for i, e in enumerate(ents):
        if e["p"] in case["roots"]:
            continue
        if e["t"] == "d" and any(o["p"].startswith(e["p"] + "/") for o in ents):
            continue
        if any(o.get("to") == e["p"] and o["t"] == "h" for o in ents):
            continue
        c = dict(case); c["world"] = {"entries": ents[:i] + ents[i + 1:]}; yield c
    if case["dargs"]:
        c = dict(case); c["dargs"] = []; yield c
    if case["gflags"]:
        c = dict(case); c["gflags"] = []; yield c


def tokenise(script):
    r = subprocess.run(["bash", "-c", TOKENISER], input=script, stdout=subprocess.PIPE, stderr=subprocess.PIPE,
                       env={"PATH": "/usr/bin:/bin", "LC_ALL": "C"})
    toks = r.stdout.split(b"\0")[:-1]
    cmds = []
    k = 0
    while k < len(toks):
        n = int(toks[k])
        cmds.append(toks[k + 1:k + 1 + n])
        k += 1 + n
    return cmds, r.stderr


def _np(p):
    return os.path.normpath(p) if p.startswith(b"/") else p


def script_ops(cmds, origs=frozenset()):
    out = []
    mt = lambda x: ops.mask_temp_of(x, origs)
    for c in cmds:
        c = [c[0]] + [_np(x) for x in c[1:]]
        if c[0] == b"rm":
            out.append(("rm", mt(c[1]), b""))
        elif c[0] == b"mv":
            out.append(("mv", mt(c[1]), mt(c[2])))
        elif c[0] == b"ln" and c[1] == b"-s":
            out.append(("ln-s", c[2], mt(c[3])))
        elif c[0] == b"ln":
            out.append(("ln", c[1], mt(c[2])))
        elif c[0] == b"cp" and c[1].startswith(b"--reflink"):
            out.append(("reflink", c[2], mt(c[3])))
        elif c[0] == b"cp":
            out.append(("cp", c[1], mt(c[2])))
        else:
            out.append(("?", b" ".join(c), b""))
    return out


def trace_ops(trace, op, origs=frozenset()):
    out = []
    mt = lambda x: ops.mask_temp_of(x, origs)
    for e in trace.mutating():
        if e.ret < 0:
            continue
        if e.kind == "unlink":
            out.append(("rm", mt(e.path), b""))
        elif e.kind == "rename":
            out.append(("mv", mt(e.path), mt(e.path2)))
        elif e.kind == "link":
            out.append(("ln", e.path2, mt(e.path)))
        elif e.kind == "symlink":
            out.append(("ln-s", e.path2, mt(e.path)))
        elif e.kind == "ficlone":
            out.append(("reflink", e.path2, mt(e.path)))
    return out


def canon_tree(inv):
    """inventory up to inode renaming: path -> (type, size, sha, target, link class)"""
    cls = {}
    for p, e in sorted(inv.items()):
        if e.type == "f":
            cls.setdefault(e.ident, []).append(p)
    out = {}
    for p, e in inv.items():
        out[p] = (e.type, e.size if e.type == "f" else 0, e.sha, e.target, tuple(cls[e.ident]) if e.type == "f" else ())
    return out


def run_case(case):
    cfg = case["cfg"]
    op = case["op"]
    viol = []
    with core.RunDir("c11") as rd:
        def build():
            if os.path.exists(rd.world):
                shutil.rmtree(rd.world)
            os.makedirs(rd.world)
            World.from_json(case["world"]).materialise(rd.world)
            os.makedirs(os.path.join(rd.world, "T"))
        build()
        roots = [os.path.join(rd.wb(), s2b(r)) for r in case["roots"]]
        env = gen.cfg_env(cfg)
        g = ops.group(rd, roots, gen.cfg_args(cfg) + case["gflags"] + (["-f", "json"] if case["fmt"] == "json" else []),
                      env=env, seed=case["seam_seed"])
        if g.rc != 0:
            return {"violations": [], "nontrivial": False, "sig": None, "probes": {"group_failed": 1}, "invocations": 1, "info": {}}
        target = os.path.join(rd.world, "T")
        later = T0_NS + 3600 * 10**9

        def V(clause, detail, res=None, paths=None):
            v = {"clause": clause, "detail": "%s | op=%s dargs=%s gflags=%s%s" % (
                detail, op, case["dargs"], case["gflags"], (" | stderr=" + res.err.decode("utf-8", "replace")[-400:]) if res is not None else "")}
            if paths is not None:
                v["paths"] = sorted({b2s(ops.relw(rd, ops.temp_owner(p, origs) or p) or p) for p in paths})
            viol.append(v)

        origs = frozenset(os.path.join(rd.wb(), p_) for p_ in inventory(rd.world))
        scripts = []
        dry = None
        for nthreads in (1, 2, 16):
            plan = [] if nthreads == 1 else [rule(kind="stat", act="delay:%d" % (150 * nthreads), prefix=rd.world, count="inf")]
            d = ops.dedupe(rd, op, g.out, extra=case["dargs"] + ["--dry-run"], target=target, env=env, now_ns=later,
                           seed=case["seam_seed"] + nthreads, threads_env=nthreads, plan=plan)
            if d.rc != 0:
                V("dry-run-succeeds", "dry run failed rc=%s" % d.rc, d)
                break
            cmds, err = tokenise(d.out)
            scripts.append(script_ops(cmds, origs))
            if dry is None:
                dry = d
        if len(scripts) == 3 and not (scripts[0] == scripts[1] == scripts[2]):
            V("script-schedule-independent", "dry-run script differs between RAYON_NUM_THREADS 1/2/16: %s vs %s" % (scripts[0][:4], [s_ for s_ in scripts[1:] if s_ != scripts[0]][0][:4]))
        if dry is not None and not viol and case["i"] % 3 == 0:
            # the same dry run with -o FILE, FILE being what an earlier, wider dry run left there (longer, older):
            # the file must then hold this run's script and nothing else
            of = os.path.join(rd.scratch, "dry-out.sh")
            with open(of, "wb") as f_:
                f_.write(dry.out + b"".join(b"rm /nonexistent/earlier-run/%d\n" % k_ for k_ in range(1 + case["i"] % 7)))
            os.utime(of, ns=(T0_NS - 10**12, T0_NS - 10**12))
            d = ops.dedupe(rd, op, g.out, extra=case["dargs"] + ["--dry-run", "-o", of], target=target, env=env, now_ns=later,
                           seed=case["seam_seed"] + 1, threads_env=1)
            if d.rc != 0:
                V("dry-run-succeeds", "dry run with -o failed rc=%s" % d.rc, d)
            else:
                cmds, err = tokenise(open(of, "rb").read())
                if script_ops(cmds, origs) != scripts[0]:
                    V("script-file-equals-stdout", "dry run with -o FILE (FILE existed, longer) left a script in FILE that differs from the one printed to stdout: %s vs %s" % (
                        script_ops(cmds, origs)[-4:], scripts[0][-4:]), d)
        nops = 0
        if dry is not None and not viol:
            sops = scripts[0]
            nops = len(sops)
            if any(o[0] == "?" for o in sops):
                V("script-parses", "script contains a line bash does not tokenise into a known operation: %s" % [o for o in sops if o[0] == "?"][:3])
            # (1) bash on the tree vs real run on the rebuilt tree
            before = canon_tree(inventory(rd.world))
            if op in ("remove", "link", "softlink"):
                sp = os.path.join(rd.scratch, "script.sh")
                open(sp, "wb").write(dry.out)
                b = subprocess.run(["bash", sp], stdout=subprocess.PIPE, stderr=subprocess.PIPE, cwd=rd.base,
                                   env={"PATH": "/usr/bin:/bin", "LC_ALL": "C"})
                if b.returncode != 0:
                    V("script-runs", "bash failed on the printed script: rc=%s %s" % (b.returncode, b.stderr.decode("utf-8", "replace")[-300:]))
                i1 = canon_tree(inventory(rd.world))
                build()
            # (not with -S: a symbolic-link member is renamed as a link but copied as the file it points to - the
            # two ways of moving are not equivalent for it, see c02-moved-relative-symlink-dangles)
            exdev = op == "move" and case.get("move_exdev") and "-S" not in case["gflags"]
            inv_before_real = inventory(rd.world) if exdev else None
            real = ops.dedupe(rd, op, g.out, extra=case["dargs"], target=target, env=env, now_ns=later,
                              seed=case["seam_seed"] + 1, threads_env=1,
                              plan=[rule(kind="rename", act="errno:EXDEV", count="inf", prefix=rd.world)] if exdev else None)
            i2 = canon_tree(inventory(rd.world))
            if exdev:
                inv_after_real = inventory(rd.world)
                for o in sops:
                    if o[0] == "mv" and len(o) >= 3:
                        src, dst = ops.relw(rd, o[1]), ops.relw(rd, o[2])
                        b_ = inv_before_real.get(src) if src else None
                        if b_ is None or b_.type != "f":
                            continue
                        a_src, a_dst = inv_after_real.get(src), inv_after_real.get(dst) if dst else None
                        if a_src is not None or a_dst is None or a_dst.sha != b_.sha:
                            V("announced-move-happens", "the script announces `mv %s %s`; with renames failing (EXDEV) the real run left source=%s target=%s" % (
                                b2s(src), b2s(dst), "present" if a_src is not None else "gone", "missing" if a_dst is None else "other bytes" if a_dst.sha != b_.sha else "ok"), real)
            if real.rc != 0:
                V("real-run-succeeds", "real run failed rc=%s" % real.rc, real)
            if op in ("remove", "link", "softlink") and i1 != i2:
                diff = sorted(p for p in set(i1) | set(i2) if i1.get(p) != i2.get(p))
                V("bash-equals-real", "tree after `bash script` differs from tree after the real run at %s: bash %s real %s" % (
                    [b2s(p) for p in diff][:5], [i1.get(p) for p in diff][:3], [i2.get(p) for p in diff][:3]),
                  paths=[os.path.join(rd.wb(), p) for p in diff])
            # (2) operations
            tops = trace_ops(real.trace, op, origs)
            want = sorted(sops)
            got = sorted(tops)
            if op == "move":
                # the real run may create parent directories and fall back to copy; compare the moves only
                want = sorted(o for o in sops if o[0] in ("mv", "cp", "rm"))
                got = sorted(o for o in tops if o[0] in ("mv", "rm"))
                want = [o for o in want if o[0] != "cp"]
            if op == "dedupe":
                want = sorted(o for o in sops if o[0] == "reflink")
                got = sorted((k, a, b_) for (k, a, b_) in tops if k == "reflink" and b"<tmp>" not in b_)
            if want != got and not exdev:
                V("script-equals-real-ops", "operations differ: only in script %s ; only in real run %s" % (
                    [o for o in want if o not in got][:4], [o for o in got if o not in want][:4]),
                  # (temporaries are left out: the other operand of the same operation names the file, and the
                  # owner of a shortened temporary name can be ambiguous among siblings with a long common prefix)
                  paths=[x for o in (set(want) ^ set(got)) for x in o[1:] if x and x.startswith(rd.wb() + b"/") and b"<tmp>" not in x])
            # (3) summaries
            s1, s2 = ops.summary(dry), ops.summary(real)
            if (s1 is not None or s2 is not None) and s1 != s2:
                V("summary-equal", "dry run says %s, real run says %s" % (s1, s2))
            # (4) groups in report order
            rep = report.parse_any(g.out)
            gidx = {}
            for k, grp in enumerate(rep.groups):
                for p in grp.paths:
                    gidx.setdefault(p, k)
            seq = [gidx.get(o[1]) for o in sops if o[0] in ("rm", "mv") and b"<tmp>" not in o[1] and o[1] in gidx]
            if any(a > b_ for a, b_ in zip(seq, seq[1:])):
                V("groups-in-report-order", "script does not follow the report's group order: %s" % seq[:20])
        verdict = ",".join(sorted({v["clause"] for v in viol}))
        return {
            "violations": viol,
            "nontrivial": nops > 0,
            "sig": ops.trace_sig(rd, [dry.trace] if dry is not None else [], verdict + op),
            "probes": {"script_ops": nops, "op_" + op: 1,
                       "hostile_names": int(any(any(ch in e["p"] for ch in " '\"$\n\\`") for e in case["world"]["entries"]))},
            "sim_ns": 3600 * 10**9,
            "invocations": 5,
            "info": {"op": op, "dargs": case["dargs"], "script_ops": nops},
        }


# ----------------------------------------------------------------------------- known findings

def _symlink_across_isolate_roots(case, violation):
    """Same defect as C02's c02-symlink-and-target-in-different-isolate-roots, seen from the dry-run side:
    `group -S --isolate` counts a link and its target under two roots as two replicas; `link` then plans
    `ln <target> <target>` (the retained link resolves to the file that is being replaced), which the real
    run rolls back - script, operations and summary differ.  Accepted only when such a cross-root link
    exists and every path named by the violation belongs to the content class of its target."""
    from . import c02
    key, bad = c02.cross_root_link_classes(case)
    if not bad:
        return False
    if violation["clause"] == "summary-equal":
        return True
    paths = violation.get("paths")
    return bool(paths) and all(key.get(p) in bad for p in paths)


KNOWN_PREDICATES = {"c11-symlink-and-target-in-different-isolate-roots": _symlink_across_isolate_roots}
