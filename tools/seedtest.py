#!/usr/bin/env python3
"""Sensitivity test: apply a property-breaking change to a SCRATCH worktree of /repo (outside /repo and
/verif), run the owning check(s) against it (VERIF_REPO / VERIF_TARGET), expect a VIOLATION, clean up.

  tools/seedtest.py revert:<commit> C05 [C02 ...]        # revert one of the fix: commits
  tools/seedtest.py seeded/<id>/patch.diff C05 [...]      # a seeded change
  tools/seedtest.py --all-reverts                         # every 'fixed' entry of known_findings.json
  tools/seedtest.py --all-seeded                          # every /verif/seeded/*/meta.json
Options: --tier quick|thorough (default quick)   --keep
Prints one line per (change, check): CAUGHT / MISSED / BUILD-FAILED and the clause that fired."""
import json
import os
import re
import shutil
import subprocess
import sys

V = os.path.dirname(os.path.dirname(os.path.abspath(__file__)))
REPO = "/repo"


def sh(cmd, **kw):
    return subprocess.run(cmd, shell=isinstance(cmd, str), stdout=subprocess.PIPE, stderr=subprocess.STDOUT, **kw)


def run_one(change, props, tier="quick", keep=False, base=None, force_base=False):
    name = re.sub(r"[^A-Za-z0-9]+", "-", change)[-40:]
    wt = "/tmp/seedtest-%s-%d" % (name, os.getpid())
    tgt = wt + "-target"
    if SHARED:
        # the --all-* modes judge one change after the other in ONE scratch worktree path with ONE build directory:
        # the dependencies are compiled once, only the fclones crate is rebuilt per change
        wt = "/tmp/seedtest-wt-%d" % os.getpid()
        tgt = "/tmp/seedtest-target-%d" % os.getpid()
    sh("git -C %s worktree remove --force %s" % (REPO, wt))
    # prefer the current HEAD (the patch is then judged against today's code, with every later repair in);
    # fall back to the commit the patch was written against when it no longer applies
    if base and not change.startswith("revert:") and not force_base:
        path0 = change if os.path.isabs(change) else os.path.join(V, change)
        if sh("git -C %s apply --check %s" % (REPO, path0)).returncode == 0:
            base = None
    r = sh("git -C %s worktree add -q --detach %s %s" % (REPO, wt, base or "HEAD"))
    if r.returncode != 0:
        print("worktree failed:", r.stdout.decode()[-300:])
        return []
    if base:
        print("   (judged against %s: %s)" % (base, "masked at HEAD by a later repair" if force_base else "the patch no longer applies to HEAD"))
    out = []
    try:
        if change.startswith("revert:"):
            r = sh("git -C %s revert -n %s" % (wt, change[7:]))
        else:
            path = change if os.path.isabs(change) else os.path.join(V, change)
            r = sh("git -C %s apply %s" % (wt, path))
        if r.returncode != 0:
            print("%-50s APPLY-FAILED %s" % (change, r.stdout.decode()[-200:].replace("\n", " ")))
            return [(change, None, "APPLY-FAILED", "")]
        env = dict(os.environ, VERIF_REPO=wt, VERIF_TARGET=tgt)
        for pid in props:
            ev = os.path.join(V, "evidence", pid + ".json")
            saved = open(ev).read() if os.path.exists(ev) else None
            r = sh([os.path.join(V, "check"), pid, "--tier", tier], env=env, cwd=V)
            if saved is not None:
                open(ev, "w").write(saved)      # evidence must describe /repo, not the scratch tree
            txt = r.stdout.decode(errors="replace")
            clauses = sorted(set(re.findall(r"violation: clause=(\S+)", txt)))
            viol = re.findall(r"VIOLATION property=\S+ replay=(\S+)", txt)
            for vp in viol:
                for f in (vp, vp.replace(".json", ".schedule")):
                    try:
                        os.unlink(f)
                    except OSError:
                        pass
            if r.returncode == 1 and viol:
                res = "CAUGHT"
            elif r.returncode == 2:
                res = "HARNESS-ERROR"
            else:
                res = "MISSED"
            detail = ",".join(clauses) or txt.strip().split("\n")[-1][:160]
            print("%-50s %-4s %-13s %s" % (change[-50:], pid, res, detail))
            sys.stdout.flush()
            out.append((change, pid, res, detail))
    finally:
        if not keep:
            sh("git -C %s worktree remove --force %s" % (REPO, wt))
            if not SHARED:
                drop_target(tgt)
            shutil.rmtree(wt, ignore_errors=True)
    return out


SHARED = False
# repairs whose spot is guarded a second time by a LATER repair: reverting them alone no longer breaks the property at
# HEAD, so the revert is judged on the tree just before the later repair
MASKED_REVERTS = {"7d5fae3": "50aefdc"}


def drop_target(tgt):
    shutil.rmtree(tgt, ignore_errors=True)
    shutil.rmtree(tgt + "-b1", ignore_errors=True)
    shutil.rmtree(tgt + "-b2", ignore_errors=True)


def main():
    a = sys.argv[1:]
    tier = "quick"
    keep = False
    if "--tier" in a:
        i = a.index("--tier"); tier = a[i + 1]; del a[i:i + 2]
    if "--keep" in a:
        a.remove("--keep"); keep = True
    match = None
    if "--match" in a:      # --all-seeded --match 'C0[1-4]i-': only the seeded changes whose directory name matches
        i = a.index("--match"); match = re.compile(a[i + 1]); del a[i:i + 2]
    results = []
    global SHARED
    if a and a[0].startswith("--all-"):
        SHARED = True
        import atexit
        atexit.register(drop_target, "/tmp/seedtest-target-%d" % os.getpid())
    if a and a[0] == "--all-reverts":
        j = json.load(open(os.path.join(V, "known_findings.json")))
        for line in j["fixed"]:
            m = re.match(r"fixed: property=(C\d+) ([0-9a-f]{7,}) ", line)
            if m:
                mk = MASKED_REVERTS.get(m.group(2))
                results += run_one("revert:" + m.group(2), [m.group(1)], tier, keep, (mk + "~1") if mk else None, force_base=bool(mk))
    elif a and a[0] == "--all-seeded":
        sd = os.path.join(V, "seeded")
        for d in sorted(os.listdir(sd)):
            mp = os.path.join(sd, d, "meta.json")
            if os.path.exists(mp) and (match is None or match.search(d)):
                m = json.load(open(mp))
                # "masked_at_head": a later repair guards the same spot a second time, the change alone no longer
                # breaks the property at HEAD - it is judged against the commit it was written for
                results += run_one(os.path.join("seeded", d, "patch.diff"), m.get("checks", [m["property"]]), tier, keep, m.get("base"),
                                   force_base=bool(m.get("masked_at_head")))
    elif a and a[0] == "--all-benign":
        # behaviour-preserving changes: NO check may raise an alarm
        allp = ["C%02d" % k for k in range(1, 21) if k not in (16, 17)]
        bd = os.path.join(V, "benign")
        fa = 0
        for f in sorted(os.listdir(bd)):
            if f.endswith(".diff"):
                rs = run_one(os.path.join("benign", f), allp, tier, keep)
                fa += len([r for r in rs if r[2] != "MISSED"])
        print("benign changes: %d false alarm(s) / harness errors" % fa)
        return 1 if fa else 0
    elif len(a) >= 2:
        mp = os.path.join(V, os.path.dirname(a[0]), "meta.json")
        m = json.load(open(mp)) if os.path.exists(mp) else {}
        results += run_one(a[0], a[1:], tier, keep, m.get("base"), force_base=bool(m.get("masked_at_head")))
    else:
        print(__doc__)
        return 2
    missed = [r for r in results if r[2] != "CAUGHT"]
    print("%d/%d caught" % (len(results) - len(missed), len(results)))
    return 1 if missed else 0


if __name__ == "__main__":
    sys.exit(main())
