"""C07 - `group` and `--dry-run` never modify the scanned tree.

The scanned roots are declared read-only to the seam (monitor: no mutating call by fclones or by
its transform children on a path under a root) and complete inventories incl. directory mtimes
are compared.  Dedicated runs cover every transform I/O mode with programs that read, ignore or
fail on their input, --cache, -o FILE, and every dedupe operation with --dry-run."""
import os
import random

from .. import core, ops, gen, xform, report
from ..core import T0_NS, b2s, s2b, rule, stable_hash
from ..world import World, inventory

ID = "C07"
LEVEL = "exploration"
BUDGET = {"quick": {"n": 600, "wall_s": 400}, "thorough": {"n": 10000, "wall_s": 3300}}
RULE = ("per case either (a) `group` with a transform drawn from {stdin->stdout, $IN, $IN+$OUT, $OUT, --in-place, "
        "--no-copy, --in-place --no-copy} x programs that read / ignore (true) / fail (false, missing program) on their "
        "input, optionally --cache and -o FILE, or plain group with --cache/-o; or (b) one of the 5 dedupe operations "
        "with --dry-run (optionally -o FILE and selection options) on a real report; oracle: seam monitor saw no "
        "mutating call under a scanned root, inventory incl. directory mtimes identical, TMPDIR empty afterwards, "
        "cache only under XDG_CACHE_HOME. non-trivial = the command ran to completion on >= 2 files; distinct = "
        "distinct trace signatures")
ASSUMPTIONS = [
    "atime is not compared (O_NOATIME is used only where permitted)",
    "-o FILE is placed outside the scanned roots",
    "a transform program that itself writes to $IN under --no-copy is the documented exception: then only fclones' own calls are judged",
]

EXTRA_TRANSFORMS = [
    ("true", [], "ignore"), ("false", [], "fail"), ("no-such-program-xyz", [], "missing"),
    ("true $IN", [], "ignore"), ("false $IN", [], "fail"),
    ("true $IN", ["--no-copy"], "ignore"), ("false $IN", ["--no-copy"], "fail"),
    ("true $IN", ["--in-place"], "ignore"), ("false $IN", ["--in-place"], "fail"),
    ("true $IN", ["--in-place", "--no-copy"], "ignore"), ("cat $IN", ["--in-place", "--no-copy"], "read"),
    ("false $IN", ["--in-place", "--no-copy"], "fail"),
    ("head -c 3 $IN", ["--no-copy"], "read"),
    ("sed -i s/a/b/g $IN", ["--in-place", "--no-copy"], "writes-in"),
    ("truncate -s 1 $IN", ["--in-place", "--no-copy"], "writes-in"),
    ("dd if=$IN of=$OUT status=none", ["--no-copy"], "read"),
    ("true $OUT", [], "ignore"),
    # programs that WRITE to their $IN argument although --in-place / --no-copy is not given: they must be working
    # on the private copy, whatever the permissions of the scanned file are (sed -i replaces the file by rename)
    # programs that die of a signal after writing part of their output (helper scripts put on PATH by run_case)
    ("selfterm", [], "signalled"), ("selfint $IN", [], "signalled"), ("selfhup $IN", ["--no-copy"], "signalled"),
    ("selfkill $IN", [], "signalled"), ("selfterm-out $OUT", [], "signalled"),
    ("sed -i s/a/b/g $IN", [], "writes-copy"),
    ("truncate -s 1 $IN", [], "writes-copy"),
    ("chmod 600 $IN", [], "writes-copy"),
]


def gen_case(seed, i):
    rng = random.Random(stable_hash(seed, ID, i))
    cfg = gen.gen_cfg(rng, small=True)
    cfg["threads"] = rng.choice([["1"], [], ["2"]])
    world, roots = gen.gen_world(rng, cfg, nroots=rng.choice([1, 2]), hostile=rng.random() < 0.3,
                                 max_files=rng.choice([4, 8, 12]), families=rng.randint(1, 3), min_len=1)
    for e in world.entries:
        if e["t"] == "f":
            e["c"]["text"] = 1
            if rng.random() < 0.25:
                e["mode"] = rng.choice([0o444, 0o400, 0o555, 0o600])      # read-only and odd permissions
    case = {"i": i, "cfg": cfg, "world": world.to_json(), "roots": roots, "seam_seed": rng.randint(1, 10**9)}
    # TMPDIR on another file system than everything else (the usual tmpfs /tmp): no rename or hard link leaves it
    case["tmp_xdev"] = rng.random() < 0.3
    if rng.random() < 0.6:
        case["kind"] = "group"
        r = rng.random()
        if r < 0.75:
            t = rng.choice(EXTRA_TRANSFORMS + [(a, b, "read") for a, b, _ in xform.TRANSFORMS])
            cfg["transform"] = t[0]
            cfg["transform_flags"] = list(t[1])
            case["tclass"] = t[2]
        case["out_file"] = rng.random() < 0.3
        case["fmt"] = rng.choice(["default", "json", "csv", "fdupes"])
        if cfg.get("cache") and rng.random() < 0.4:
            # XDG_CACHE_HOME empty or relative (the XDG rule: such a value is ignored, $HOME/.cache is used), and the
            # command started INSIDE the scanned tree: nothing may appear there
            case["xdg"] = rng.choice(["", "relcache", ".cache"])
        prog = (cfg.get("transform") or "").split(" ")[0]
        if prog in ("cat", "cp", "head", "true", "truncate") and rng.random() < 0.4:
            cfg["knobs"] = {}
            # two big duplicates (17 MiB): temp-file placement, copy strategy or read-ahead may depend on a size
            # threshold; only with cheap programs and the shipped buffer sizes (the seam traces every read)
            n = 17 * 2**20 + 5
            world.entries.append({"t": "f", "p": roots[0] + "/big1", "c": {"zeros": n}})
            world.entries.append({"t": "f", "p": roots[-1] + "/big2", "c": {"zeros": n}})
            case["world"] = world.to_json()
    else:
        case["kind"] = "dryrun"
        cfg["cache"] = False
        case["op"] = rng.choice(ops.OPS)
        case["out_file"] = rng.random() < 0.4
        d = []
        if rng.random() < 0.3:
            d += ["-n", str(rng.choice([1, 2]))]
        if rng.random() < 0.3:
            d += ["--priority", rng.choice(["newest", "most-nested", "top", "least-recently-modified"])]
        if rng.random() < 0.2:
            d += ["--name", "*"]
        if rng.random() < 0.2:
            d += ["--no-lock"]
        case["dargs"] = d
        case["gflags"] = rng.choice([[], [], ["-S"], ["-H"], ["--rf-over", "0"]])
    # (drawn last, the earlier stream is unchanged) the temporary directory of a transform cannot be created
    # (TMPDIR read-only, full, not permitted) and the command is started INSIDE the scanned tree: whatever fclones
    # does then - give up, or look for another place - nothing may appear in the tree
    r = rng.random()
    if case["kind"] == "group" and cfg.get("transform") and r < 0.2:
        case["tmp_fail"] = rng.choice(["EACCES", "ENOSPC", "EROFS", "ENOENT"])
    return case


def gen_cases(tier, seed):
    for i in range(BUDGET[tier]["n"]):
        yield gen_case(seed, i)


def shrink(case):
    ents = case["world"]["entries"]
    for i, e in enumerate(ents):
        if e["p"] in case["roots"]:
            continue
        if e["t"] == "d" and any(o["p"].startswith(e["p"] + "/") for o in ents):
            continue
        if any(o.get("to") == e["p"] and o["t"] == "h" for o in ents):
            continue
        c = dict(case); c["world"] = {"entries": ents[:i] + ents[i + 1:]}; yield c
    if case.get("out_file"):
        c = dict(case); c["out_file"] = False; yield c
    if case.get("tmp_xdev"):
        c = dict(case); c["tmp_xdev"] = False; yield c
    if case.get("tmp_fail"):
        c = dict(case); del c["tmp_fail"]; yield c
    if case["cfg"].get("cache"):
        c = dict(case); c["cfg"] = dict(case["cfg"], cache=False); yield c
    if case["cfg"]["threads"] != ["1"]:
        c = dict(case); c["cfg"] = dict(case["cfg"], threads=["1"]); yield c
    if case.get("dargs"):
        c = dict(case); c["dargs"] = []; yield c


def full_compare(before, after):
    """every difference incl. directory mtimes, modes and link counts"""
    out = []
    for p in sorted(set(before) | set(after)):
        a, b = before.get(p), after.get(p)
        if a is None:
            out.append("appeared %r %r" % (b2s(p), b))
        elif b is None:
            out.append("vanished %r (%r)" % (b2s(p), a))
        else:
            for fld in ("type", "size", "sha", "target", "ident", "nlink", "mtime", "mode"):
                if getattr(a, fld) != getattr(b, fld):
                    out.append("%r: %s %r -> %r" % (b2s(p), fld, getattr(a, fld), getattr(b, fld)))
    return out


def run_case(case):
    cfg = case["cfg"]
    viol = []
    with core.RunDir("c07") as rd:
        World.from_json(case["world"]).materialise(rd.world)
        roots = [os.path.join(rd.wb(), s2b(r)) for r in case["roots"]]
        ro = [os.path.join(rd.world, r) for r in case["roots"]]
        env = gen.cfg_env(cfg)
        outdir = os.path.join(rd.base, "outdir")
        os.makedirs(outdir)
        bindir = os.path.join(rd.base, "bin")
        os.makedirs(bindir)
        for nm_, sig_ in (("selfterm", "TERM"), ("selfint", "INT"), ("selfhup", "HUP"), ("selfkill", "KILL")):
            with open(os.path.join(bindir, nm_), "w") as f_:
                f_.write('#!/bin/sh\nif [ -n "$1" ]; then head -c 7 "$1"; else head -c 7; fi\nkill -%s $$\nsleep 5\n' % sig_)
            os.chmod(os.path.join(bindir, nm_), 0o755)
        with open(os.path.join(bindir, "selfterm-out"), "w") as f_:
            f_.write('#!/bin/sh\nprintf abc > "$1"\nkill -TERM $$\nsleep 5\n')
        os.chmod(os.path.join(bindir, "selfterm-out"), 0o755)
        env = dict(env, PATH=bindir + ":/usr/local/bin:/usr/bin:/bin")
        traces = []
        program_writes = case.get("tclass") == "writes-in"

        def V(clause, detail, res):
            viol.append({"clause": clause, "detail": "%s | kind=%s transform=%r %s op=%s | stderr=%s" % (
                detail, case["kind"], cfg.get("transform"), cfg.get("transform_flags"), case.get("op"),
                res.err.decode("utf-8", "replace")[-500:])})

        def judge(res, before, tag):
            after = inventory(rd.world)
            if res.timed_out:
                V("terminates", tag + ": hung", res)
            mon = [v for v in res.trace.ro_violations if not (program_writes and v[1] == 1)]
            if mon:
                V("no-mutating-call-in-roots", "%s: %s issued mutating calls on scanned paths: %s" % (
                    tag, "fclones" if any(v[1] == 0 for v in mon) else "a transform child", [(k, "child" if c else "fclones", b2s(ops.relw(rd, p) or p)) for k, c, p in mon][:5]), res)
            if not program_writes:
                d = full_compare(before, after)
                if d:
                    V("tree-unchanged", "%s: scanned tree differs: %s" % (tag, d[:6]), res)
            left = os.listdir(rd.tmp)
            if left and not res.timed_out:       # however fclones ends on its own account, its temporary files must be gone
                V("temp-files-gone", "%s: TMPDIR not empty after the run: %s" % (tag, left[:5]), res)
            stray = [p for p in os.listdir(rd.home)]
            if stray and "xdg" not in case:
                V("cache-location", "%s: files created under HOME although XDG_CACHE_HOME is set: %s" % (tag, stray), res)
            return after

        xplan = [rule(kind=k_, act="errno:EXDEV", prefix=rd.tmp, count="inf") for k_ in ("rename",)] if case.get("tmp_xdev") else []
        before = inventory(rd.world)
        nfiles = len([e for e in before.values() if e.type == "f"])
        if case["kind"] == "group":
            args = gen.cfg_args(cfg) + ["-f", case["fmt"]] + (["--rf-over", "0"] if cfg.get("transform") else [])
            if case["out_file"]:
                args += ["-o", os.path.join(outdir, "report.out")]
            runs = 2 if cfg.get("cache") else 1
            genv, gcwd = env, None
            if case.get("tmp_fail"):
                gcwd = os.path.join(rd.world, case["roots"][0])
                xplan = xplan + [rule(kind="mkdir", act="errno:" + case["tmp_fail"], prefix=rd.tmp, count="inf", proc="any")]
            if "xdg" in case:
                genv, gcwd = dict(env, XDG_CACHE_HOME=case["xdg"]), os.path.join(rd.world, case["roots"][0])
            for k in range(runs):
                res = ops.group(rd, roots, args, env=genv, ro=ro, seed=case["seam_seed"] + k, now_ns=T0_NS + k * 10**9, cwd=gcwd, plan=xplan)
                traces.append(res.trace)
                before = judge(res, before, "group run %d" % (k + 1)) if program_writes else (judge(res, before, "group run %d" % (k + 1)) and before)
            completed = res.rc == 0
        else:
            g = ops.group(rd, roots, gen.cfg_args(cfg) + case["gflags"], env=env, ro=ro, seed=case["seam_seed"])
            traces.append(g.trace)
            judge(g, before, "group")
            completed = False
            if g.rc == 0:
                extra = ["--dry-run"] + case["dargs"]
                if case["out_file"]:
                    extra += ["-o", os.path.join(outdir, "script.out")]
                res = ops.dedupe(rd, case["op"], g.out, extra=extra, target=os.path.join(rd.base, "mvtarget"), env=env,
                                 ro=ro + [os.path.join(rd.base, "mvtarget")], now_ns=T0_NS + 3600 * 10**9, seed=case["seam_seed"] + 1, plan=xplan)
                traces.append(res.trace)
                judge(res, before, "%s --dry-run" % case["op"])
                if os.path.exists(os.path.join(rd.base, "mvtarget")):
                    V("tree-unchanged", "move --dry-run created the target directory", res)
                completed = res.rc == 0
        verdict = ",".join(sorted({v["clause"] for v in viol}))
        return {
            "violations": viol,
            "nontrivial": completed and nfiles >= 2,
            "sig": ops.trace_sig(rd, traces, verdict),
            "probes": {"kind_" + case["kind"]: 1, "transform_" + str(case.get("tclass", "none")): 1,
                       "cache": int(bool(cfg.get("cache"))), "out_file": int(bool(case.get("out_file"))),
                       "temp_dir_cannot_be_created": int(bool(case.get("tmp_fail"))),
                       "child_processes": sum(max(t.procs - 1, 0) for t in traces)},
            "sim_ns": 0,
            "invocations": len(traces),
            "info": {"kind": case["kind"], "transform": cfg.get("transform"), "tflags": cfg.get("transform_flags"), "op": case.get("op"),
                     "completed": completed},
        }
