"""Batch runner: seeded case generation, 16 workers, oracles, known findings, minimisation,
replay files and evidence.  One integer (VERIF_SEED) decides every case."""
import argparse
import hashlib
import importlib
import json
import multiprocessing as mp
import os
import subprocess
import sys
import time
import traceback

from . import core
from .core import HarnessError, VERIF
from .report import ReportError

REPLAYS = os.path.join(VERIF, "replays")
EVIDENCE = os.path.join(VERIF, "evidence")
KNOWN_FILE = os.path.join(VERIF, "known_findings.json")
DEFAULT_SEED = 20260901

ENGINE_A_PARTS = {
    "fclones group/remove/link/dedupe/move": "real binary built from /repo working tree (hooks on)",
    "threads, rayon pools, channels, semaphores": "real OS threads (sizes/delays from the seed; interleaving steered, not scheduled)",
    "file system": "real tmpfs reached only through libsimfs.so (faults, short I/O, crash, pause, relabel)",
    "clock (CLOCK_REALTIME)": "simulated by the seam",
    "getrandom (temp names, uuid, hash seeds)": "simulated by the seam (seeded stream)",
    "FICLONE ioctl": "stub in the seam (atomic copy)",
    "transform programs": "real coreutils, children inherit the seam",
    "user / other processes": "simulator actors at rendezvous points",
}


def load_prop(pid):
    return importlib.import_module("sim.props." + pid.lower())


def load_known():
    try:
        return json.load(open(KNOWN_FILE))
    except FileNotFoundError:
        return {"findings": [], "fixed": []}


# ----------------------------------------------------------------------------- worker side

_prop = None


def _init_worker(pid):
    global _prop
    _prop = load_prop(pid)


def _malformed(e):
    # a report written by the real `group` that the independent parser cannot decode is a
    # violation of the round trip (exact path bytes), never a harness error
    return {"violations": [{"clause": "report-well-formed", "detail": "a report written by `group` is not decodable: %s" % e}],
            "nontrivial": True, "sig": "malformed-report", "info": {"error": str(e)[:200]}}


def _run_one(item):
    idx, case = item
    t0 = time.time()
    try:
        out = _prop.run_case(case)
        out.setdefault("violations", [])
        out["ok"] = True
    except ReportError as e:
        out = _malformed(e)
        out["ok"] = True
    except HarnessError as e:
        out = {"ok": False, "harness_error": str(e), "violations": []}
    except Exception:
        out = {"ok": False, "harness_error": traceback.format_exc(), "violations": []}
    out["idx"] = idx
    out["wall"] = time.time() - t0
    return out


def run_case_inproc(prop, case):
    try:
        out = prop.run_case(case)
    except ReportError as e:
        out = _malformed(e)
    out.setdefault("violations", [])
    return out


# ----------------------------------------------------------------------------- known findings

def classify(prop, case, violation, known):
    """-> finding dict if this violation is a listed known finding, else None"""
    preds = getattr(prop, "KNOWN_PREDICATES", {})
    for f in known.get("findings", []):
        if f.get("property") != prop.ID:
            continue
        if f.get("clause") and f["clause"] != violation["clause"]:
            continue
        pred = preds.get(f["id"])
        if pred is None:
            continue
        try:
            if pred(case, violation):
                return f
        except Exception:
            continue
    return None


# ----------------------------------------------------------------------------- minimisation

def minimise(prop, case, clause, budget_s, known):
    """Greedy delta debugging over prop.shrink(case); keeps a candidate iff the same clause
    fails again and it is still not a known finding."""
    if not hasattr(prop, "shrink"):
        return case, 0
    t_end = time.time() + budget_s
    steps = 0
    progress = True
    while progress and time.time() < t_end:
        progress = False
        for cand in prop.shrink(case):
            if time.time() >= t_end:
                break
            try:
                out = run_case_inproc(prop, cand)
            except Exception:
                continue
            hit = [v for v in out["violations"] if v["clause"] == clause]
            if hit and classify(prop, cand, hit[0], known) is None:
                case = cand
                steps += 1
                progress = True
                break
    return case, steps


def write_replay(prop, seed, case, violation, minimised_steps, tag):
    os.makedirs(REPLAYS, exist_ok=True)
    h = hashlib.sha256(json.dumps(case, sort_keys=True).encode()).hexdigest()[:10]
    path = os.path.join(REPLAYS, "%s-%s-%s.json" % (prop.ID, seed, h))
    with open(path, "w") as f:
        json.dump({"property": prop.ID, "seed": seed, "clause": violation["clause"],
                   "detail": violation.get("detail", ""), "minimised_steps": minimised_steps,
                   "engine": "A", "case": case}, f, indent=1, sort_keys=True)
    return path


def replay_in_fresh_process(pid, path):
    r = subprocess.run([sys.executable, os.path.join(VERIF, "check"), pid, "--replay", path, "--no-build"],
                       stdout=subprocess.PIPE, stderr=subprocess.PIPE)
    return r.returncode == 1 and b"VIOLATION" in r.stdout


# ----------------------------------------------------------------------------- main

def do_replay(prop, path):
    j = json.load(open(path))
    if j.get("engine") == "B2":
        from . import b2
        msg = b2.replay(path)
        if msg:
            print("replay (engine B2): fails again: %s" % msg[:600])
            print("VIOLATION property=%s replay=%s" % (prop.ID, path))
            return 1
        print("replay (engine B2): no violation reproduced")
        return 0
    out = run_case_inproc(prop, j["case"])
    hit = [v for v in out["violations"] if v["clause"] == j["clause"]]
    if hit:
        print("replay: clause %r fails again: %s" % (j["clause"], hit[0].get("detail", "")[:2000]))
        print("VIOLATION property=%s replay=%s" % (prop.ID, path))
        return 1
    if out["violations"]:
        print("replay: different clause(s) fail: %s" % [v["clause"] for v in out["violations"]])
        print("VIOLATION property=%s replay=%s" % (prop.ID, path))
        return 1
    print("replay: no violation reproduced")
    return 0


def run_batch(pid, tier, seed, workers=16, max_cases=None, dump_sigs=None):
    prop = load_prop(pid)
    known = load_known()
    t0 = time.time()
    wall_cap = prop.BUDGET[tier].get("wall_s", 600)
    cases = []
    # simulated hosts left behind by workers that were stopped at the wall-clock cap or killed from outside:
    # a host lives for seconds, so anything older than three hours belongs to nobody
    try:
        import shutil
        for fn in os.listdir(core.SHM):
            dp = os.path.join(core.SHM, fn)
            if t0 - os.lstat(dp).st_mtime > 3 * 3600:
                shutil.rmtree(dp, ignore_errors=True)
    except OSError:
        pass
    # regression cases: minimised cases that failed before a defect was repaired in /repo
    # (known_findings.json "fixed"); they run first in every tier and must hold now
    rdir = os.path.join(VERIF, "replays", "regress")
    if os.path.isdir(rdir) and getattr(prop, "ENGINE", "A") == "A":
        for fn in sorted(os.listdir(rdir)):
            if fn.startswith(pid + "-") and fn.endswith(".json"):
                cases.append(json.load(open(os.path.join(rdir, fn)))["case"])
    n_regress = len(cases)
    for i, c in enumerate(prop.gen_cases(tier, seed)):
        cases.append(c)
        if max_cases and len(cases) >= max_cases:
            break
    gen_wall = time.time() - t0
    results = [None] * len(cases)
    harness_errors = []
    stopped_early = False
    with mp.Pool(workers, initializer=_init_worker, initargs=(pid,)) as pool:
        it = pool.imap_unordered(_run_one, list(enumerate(cases)), chunksize=1)
        done = 0
        try:
            while True:
                remaining = wall_cap - (time.time() - t0)
                if remaining <= 0:
                    stopped_early = True
                    pool.terminate()
                    break
                try:
                    out = it.next(timeout=max(1.0, remaining))
                except StopIteration:
                    break
                except mp.TimeoutError:
                    stopped_early = True
                    pool.terminate()
                    break
                results[out["idx"]] = out
                done += 1
                if not out["ok"]:
                    harness_errors.append(out["harness_error"])
                    if len(harness_errors) >= 3:
                        pool.terminate()
                        break
        finally:
            pass
    if harness_errors:
        print("HARNESS ERROR (%d):\n%s" % (len(harness_errors), harness_errors[0]), file=sys.stderr)
        return 2

    # aggregate in case order so that the verdict does not depend on worker timing
    evaluations = 0
    sigs = set()
    probes, faults = {}, {}
    sim_ns = 0
    invocations = 0
    viol = []  # (idx, violation)
    for idx, out in enumerate(results):
        if out is None:
            continue
        evaluations += 1
        if out.get("nontrivial", True) and out.get("sig") is not None:
            sigs.add(out["sig"])
        for k, v in out.get("probes", {}).items():
            probes[k] = probes.get(k, 0) + v
        for k, v in out.get("faults", {}).items():
            faults[k] = faults.get(k, 0) + v
        sim_ns += out.get("sim_ns", 0)
        invocations += out.get("invocations", 0)
        for v in out["violations"]:
            viol.append((idx, v))

    if dump_sigs:
        with open(dump_sigs, "w") as f:
            json.dump([[i, (r or {}).get("sig"), sorted({v["clause"] for v in (r or {}).get("violations", [])})]
                       for i, r in enumerate(results)], f)
    known_hits = {}
    new = []
    # witnesses of the listed (open) findings are re-run on every invocation, so that each listed
    # finding is either reported as KNOWN-FINDING or noted as no longer reproducing
    stale = []
    for f in known.get("findings", []):
        if f.get("property") != pid or not f.get("witness"):
            continue
        try:
            wj = json.load(open(os.path.join(VERIF, f["witness"])))
            wout = run_case_inproc(prop, wj["case"])
            hit = [v for v in wout["violations"] if classify(prop, wj["case"], v, {"findings": [f]}) is not None]
            if hit:
                known_hits.setdefault(f["id"], {"finding": f, "n": 0, "first": -1})["n"] += 1
            else:
                stale.append(f["id"])
            for v in wout["violations"]:
                if classify(prop, wj["case"], v, known) is None:
                    cases.append(wj["case"])
                    results.append(wout)
                    viol.append((len(cases) - 1, v))
        except FileNotFoundError:
            stale.append(f["id"] + " (witness file missing)")
    for sid in stale:
        print("note: listed finding %s did not reproduce from its witness on this tree" % sid)
    for idx, v in viol:
        f = classify(prop, cases[idx], v, known)
        if f is not None:
            known_hits.setdefault(f["id"], {"finding": f, "n": 0, "first": idx})["n"] += 1
        else:
            new.append((idx, v))

    lines = []
    rc = 0
    anomalies = []
    reported = set()
    min_budget = 60 if tier == "quick" else 240
    for idx, v in new:
        if v["clause"] in reported:
            continue  # one replay per clause is enough; the count is in the evidence
        small, steps = minimise(prop, cases[idx], v["clause"], min_budget, known)
        path = write_replay(prop, seed, small, v, steps, "v")
        if replay_in_fresh_process(pid, path):
            reported.add(v["clause"])
            lines.append("VIOLATION property=%s replay=%s" % (pid, path))
            print("violation: clause=%s case#%d %s" % (v["clause"], idx, v.get("detail", "")[:3000]))
            rc = 1
        else:
            # retry with the unminimised case
            path2 = write_replay(prop, seed, cases[idx], v, 0, "v")
            if path2 != path and replay_in_fresh_process(pid, path2):
                reported.add(v["clause"])
                lines.append("VIOLATION property=%s replay=%s" % (pid, path2))
                print("violation: clause=%s case#%d %s" % (v["clause"], idx, v.get("detail", "")[:3000]))
                rc = 1
            else:
                anomalies.append({"clause": v["clause"], "case_index": idx, "detail": v.get("detail", "")[:500],
                                  "note": "did not reproduce in a fresh-process replay; not reported"})
                for p_ in {path, path2}:
                    try:
                        os.unlink(p_)
                    except OSError:
                        pass
    b2_summary = None
    if getattr(prop, "ENGINE_B2", False):
        from . import b2
        b2_summary, b2_viols = b2.run(tier, seed, pid, REPLAYS, workers)
        for bv in b2_viols[:1]:
            print("violation (engine B2): clause=%s %s" % (bv["clause"], bv["message"][:1500]))
            lines.append("VIOLATION property=%s replay=%s" % (pid, bv["replay"]))
            reported.add("B2:" + bv["clause"])
            rc = 1
    for k, h in sorted(known_hits.items()):
        print("KNOWN-FINDING: property=%s %s [%s; %d case(s) this run]" % (pid, h["finding"]["text"], k, h["n"]))
    for l in lines:
        print(l)

    wall = time.time() - t0
    samples = []
    for idx in range(min(3, len(cases))):
        if results[idx] is not None:
            samples.append({"case": abbreviate(cases[idx]), "outcome": results[idx].get("info", {}),
                            "sig": results[idx].get("sig")})
    ev = {
        "property_id": pid,
        "tier": tier,
        "seed": seed,
        "level": prop.LEVEL,
        "coverage": {
            "evaluations": evaluations,
            "distinct_nontrivial": len(sigs),
            "rule": prop.RULE,
            "samples": samples,
            "exhaustive": bool(getattr(prop, "EXHAUSTIVE", {}).get(tier, False)) and not stopped_early,
            "cases_generated": len(cases),
            "stopped_at_wall_cap": stopped_early,
            "fclones_invocations": invocations,
            "simulated_runs_per_hour": int(evaluations / max(wall, 1e-9) * 3600),
            "simulated_time_covered_s": sim_ns / 1e9,
            "faults_fired": faults,
            "probes": probes,
            "distinct_measure": "hash of (per-path event-kind sequences incl. injected outcomes, oracle outcome)",
            "real_vs_stub": dict(ENGINE_A_PARTS, **getattr(prop, "REAL_VS_STUB", {})),
            "known_findings_hit": {k: h["n"] for k, h in known_hits.items()},
            "unreproduced_anomalies": anomalies,
            "violating_cases": len(new),
            **({"engine_b2_shuttle": b2_summary} if b2_summary else {}),
        },
        "assumptions": getattr(prop, "ASSUMPTIONS", []),
        "wall_s": round(wall, 2),
        "violations": len(reported),
    }
    os.makedirs(EVIDENCE, exist_ok=True)
    with open(os.path.join(EVIDENCE, pid + ".json"), "w") as f:
        json.dump(ev, f, indent=1, sort_keys=True)
    print("%s %s: %d cases, %d distinct nontrivial, %d violating, %d known, %.1fs" % (
        pid, tier, evaluations, len(sigs), len(new), sum(h["n"] for h in known_hits.values()), wall))
    return rc


def abbreviate(x, depth=0):
    if isinstance(x, dict):
        return {k: abbreviate(v, depth + 1) for k, v in list(x.items())[:40]}
    if isinstance(x, list):
        return [abbreviate(v, depth + 1) for v in x[:12]] + (["...(%d more)" % (len(x) - 12)] if len(x) > 12 else [])
    if isinstance(x, str) and len(x) > 200:
        return x[:200] + "..."
    return x


def main(argv=None):
    ap = argparse.ArgumentParser()
    ap.add_argument("prop")
    ap.add_argument("--tier", default=os.environ.get("VERIF_TIER", "quick"), choices=["quick", "thorough"])
    ap.add_argument("--replay")
    ap.add_argument("--no-build", action="store_true")
    ap.add_argument("--workers", type=int, default=int(os.environ.get("VERIF_WORKERS", "16")))
    ap.add_argument("--max-cases", type=int)
    ap.add_argument("--dump-sigs", help="write [case index, trace signature, violated clauses] per case (determinism self-test)")
    a = ap.parse_args(argv)
    pid = a.prop.upper()
    seed = int(os.environ.get("VERIF_SEED", DEFAULT_SEED))
    try:
        prop = load_prop(pid)
        if getattr(prop, "ENGINE", "A") == "B":
            return prop.main(a, seed)
        if not a.no_build:
            core.ensure_built()
        os.makedirs(core.SHM, exist_ok=True)
        if a.replay:
            return do_replay(prop, a.replay)
        return run_batch(pid, a.tier, seed, a.workers, a.max_cases, a.dump_sigs)
    except HarnessError as e:
        print("HARNESS ERROR: %s" % e, file=sys.stderr)
        return 2
    except Exception:
        traceback.print_exc()
        return 2
