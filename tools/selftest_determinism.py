#!/usr/bin/env python3
"""Determinism self-test of engine A: the same VERIF_SEED must give identical per-case trace
signatures and verdicts (a) twice in a row and (b) with 1 and with 16 worker processes.

  tools/selftest_determinism.py [--props C05,C15,C04,C08,C10,C18,C20] [--seeds 1,2,3] [--max-cases 120]
Exit 0 = identical everywhere; 2 = divergence (a harness defect, never a VIOLATION)."""
import json, os, subprocess, sys, tempfile
V = os.path.dirname(os.path.dirname(os.path.abspath(__file__)))
def arg(name, default):
    a = sys.argv
    return a[a.index(name) + 1] if name in a else default
props = arg("--props", "C05,C15,C04,C08,C10,C18,C20").split(",")
seeds = [int(x) for x in arg("--seeds", "1,2,3").split(",")]
maxc = arg("--max-cases", "120")
bad = 0
total = 0
for pid in props:
    for seed in seeds:
        runs = []
        for workers in (16, 1, 16):
            fd, path = tempfile.mkstemp(suffix=".json"); os.close(fd)
            ev = os.path.join(V, "evidence", pid + ".json")
            saved = open(ev).read() if os.path.exists(ev) else None
            r = subprocess.run([os.path.join(V, "check"), pid, "--tier", "quick", "--max-cases", maxc, "--workers", str(workers),
                                "--dump-sigs", path, "--no-build"], env=dict(os.environ, VERIF_SEED=str(seed)),
                               stdout=subprocess.PIPE, stderr=subprocess.STDOUT, cwd=V)
            if saved is not None:
                open(ev, "w").write(saved)
            runs.append(json.load(open(path)))
            os.unlink(path)
        total += len(runs[0])
        # properties whose cases run fclones with more than one thread: the per-path event sequences
        # are not a function of the seed there (interleaving is steered, not scheduled) - verdicts must be
        serial = pid in ("C04", "C05", "C08", "C10", "C15", "C18", "C20")
        for k, other in enumerate(runs[1:]):
            diff = [(a, b) for a, b in zip(runs[0], other) if (a != b if serial else (a[0], a[2]) != (b[0], b[2]))]
            if diff or len(runs[0]) != len(other):
                bad += len(diff) + abs(len(runs[0]) - len(other))
                print("DIVERGENCE %s seed %d run0 vs run%d: %d cases, first: %s" % (pid, seed, k + 1, len(diff), diff[:2]))
        print("%s seed %d: %d cases x 3 runs (workers 16, 1, 16) compared" % (pid, seed, len(runs[0])))
        sys.stdout.flush()
print("determinism self-test: %d cases, %d divergent" % (total, bad))
sys.exit(2 if bad else 0)
