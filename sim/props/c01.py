"""C01 - reported groups contain only files with byte-identical content.

Seeded worlds whose files differ in single bytes at the stage boundaries of the drawn
configuration, grouped by the real binary under short reads / delays / pool sizes / device kinds
/ knob overrides / cache / transforms.  Oracle: direct byte comparison by the driver.
"""
import os
import random

from .. import core, ops, gen, xform, report
from ..core import T0_NS, b2s, s2b, rule, stable_hash
from ..world import World, inventory, read_through

ID = "C01"
LEVEL = "exploration"
BUDGET = {"quick": {"n": 1000, "wall_s": 400}, "thorough": {"n": 40000, "wall_s": 3300}}
RULE = ("per case: seeded group configuration (7 hash fns, device kind, pool spec, prefix/suffix sizes, knob "
        "overrides for buffer/prefix/suffix-threshold in ~70%, cache, transform in ~25%) x seeded world of near-"
        "duplicate families (single-byte flips at stage boundary offsets, hard links, symlinks with -S/-L; in ~15% all equal-length "
        "files carry one inode number on different st_dev) x fault "
        "mode (none / short reads on every read / seeded open+read delays); non-trivial = the report contains a "
        "group with >= 2 paths; distinct = distinct trace signatures")
ASSUMPTIONS = [
    "hash collisions are outside the claim",
    "--skip-content-hash is never generated",
    "EINTR on regular-file reads is not injected here (see C15)",
]
REAL_VS_STUB = {"transform oracle": "same coreutils command run by the driver on the original file"}


def gen_case(seed, i):
    rng = random.Random(stable_hash(seed, ID, i))
    cfg = gen.gen_cfg(rng)
    r = rng.random()
    if r < 0.25:
        t = rng.choice(xform.TRANSFORMS)
        cfg["transform"] = t[0]
        cfg["transform_flags"] = list(t[1])
    world, roots = gen.gen_world(rng, cfg, nroots=rng.choice([1, 2, 2, 3]), hostile=rng.random() < 0.5,
                                 max_files=rng.choice([6, 12, 24]))
    if cfg.get("transform") and rng.random() < 0.7:
        for e in world.entries:
            if e["t"] == "f":
                e["c"]["text"] = 1
    gflags = []
    if rng.random() < 0.3:
        gflags.append(rng.choice(["-S", "-L", "-H"]))
    if rng.random() < 0.15:
        gflags += ["--min", "0"]
    # the replication filter and --isolate change which classes are REPORTED, never what may share a group:
    # a reported group must be byte-identical under every filter (singletons and under-replicated classes too)
    r_ = rng.random()
    if r_ < 0.1:
        gflags += ["--rf-over", "0"]
    elif r_ < 0.2:
        gflags += ["--unique"]
    elif r_ < 0.3:
        gflags += ["--rf-under", rng.choice(["2", "3", "4"])]
    if len(roots) >= 2 and "-L" not in gflags and rng.random() < 0.4:
        gflags.append("--isolate")
    fm = rng.choice(["none", "none", "short", "short", "delay"])
    c = {"i": i, "cfg": cfg, "world": world.to_json(), "roots": roots, "gflags": gflags, "fault": fm,
         "seam_seed": rng.randint(1, 10**9)}
    # ~15%: every set of equal-length files is presented as files with ONE inode number on DIFFERENT file systems
    # (st_dev differs; two partitions or subvolumes of one disk) - they are not hard links of each other
    # (drawn last: the stream of the earlier draws is unchanged)
    c["ino_twins"] = rng.random() < 0.15
    return c


def gen_cases(tier, seed):
    for i in range(BUDGET[tier]["n"]):
        yield gen_case(seed, i)


def shrink(case):
    ents = case["world"]["entries"]
    for i, e in enumerate(ents):
        if e["t"] == "d":
            continue
        if any(o.get("to") == e["p"] and o["t"] == "h" for o in ents):
            continue
        c = dict(case)
        c["world"] = {"entries": ents[:i] + ents[i + 1:]}
        yield c
    if case["fault"] != "none":
        c = dict(case); c["fault"] = "none"; yield c
    if case["gflags"]:
        c = dict(case); c["gflags"] = []; yield c
    if case.get("ino_twins"):
        c = dict(case); c["ino_twins"] = False; yield c
    cfg = case["cfg"]
    if cfg["threads"] != ["1"]:
        c = dict(case); c["cfg"] = dict(cfg, threads=["1"]); yield c
    if cfg.get("cache"):
        c = dict(case); c["cfg"] = dict(cfg, cache=False); yield c
    if cfg["hash_fn"] != "metro":
        c = dict(case); c["cfg"] = dict(cfg, hash_fn="metro"); yield c


def plan_for(case, rd):
    if case["fault"] == "short":
        return [rule(kind="read", act="shortrnd", prefix=rd.world, count="inf", proc="any")]
    if case["fault"] == "delay":
        return [rule(kind="open", act="delay:300", prefix=rd.world, count="inf"),
                rule(kind="read", act="delay:200", prefix=rd.world, count="inf")]
    return []


def check_report(case, rd, res, viol, tag):
    cfg = case["cfg"]
    if res.timed_out:
        viol.append({"clause": "terminates", "detail": "group hung (%s)" % tag})
        return None
    if res.rc != 0:
        # no report, nothing for C01 to judge; counted as a probe (C13/C15 judge termination/exit status)
        return -1
    try:
        rep = report.parse_json(res.out)
    except report.ReportError as e:
        viol.append({"clause": "report-parses", "detail": "%s: %s" % (tag, e)})
        return None
    multi = 0
    for g in rep.groups:
        datas = []
        for p in g.paths:
            if cfg.get("transform"):
                d = xform.run_transform(cfg["transform"], cfg.get("transform_flags", []), p, rd.scratch)
            else:
                try:
                    with open(p, "rb") as f:
                        d = f.read()
                except OSError:
                    d = None
            datas.append(d)
        if len(g.paths) >= 2:
            multi += 1
        if any(d is None for d in datas):
            viol.append({"clause": "members-exist", "detail": "%s: group %r has unreadable/untransformable member" % (tag, g)})
            continue
        if any(d != datas[0] for d in datas):
            viol.append({"clause": "identical-content", "detail": "%s: group len=%d hash=%s lists files with different %s: %s" % (
                tag, g.len, g.hash, "transform output" if cfg.get("transform") else "bytes",
                [(b2s(p), len(d), d[:40]) for p, d in zip(g.paths, datas)])})
        elif len(datas[0]) != g.len:
            viol.append({"clause": "printed-length", "detail": "%s: group prints length %d but the common %s length is %d: %s" % (
                tag, g.len, "transform output" if cfg.get("transform") else "content", len(datas[0]), [b2s(p) for p in g.paths])})
    return multi


def twin_labels(rd):
    """real inode -> simulated (ino, dev): all regular files of one length share an inode number, each on its own device"""
    by_len = {}
    for dp, _dn, fn in os.walk(rd.wb()):
        for f in fn:
            try:
                st = os.lstat(os.path.join(dp, f))
            except OSError:
                continue
            import stat as _st
            if _st.S_ISREG(st.st_mode):
                by_len.setdefault(st.st_size, set()).add(st.st_ino)
    labels = {}
    for k, (ln, inos) in enumerate(sorted(by_len.items())):
        if len(inos) >= 2:
            for j, ino in enumerate(sorted(inos)):
                labels[ino] = {"ino": 900000 + k, "dev": 7001 + j}
    return labels


def run_case(case):
    cfg = case["cfg"]
    viol = []
    with core.RunDir("c01") as rd:
        World.from_json(case["world"]).materialise(rd.world)
        labels = twin_labels(rd) if case.get("ino_twins") else None
        roots = [os.path.join(rd.world, r) for r in case["roots"]]
        args = gen.cfg_args(cfg) + case["gflags"] + ["-f", "json"]
        env = gen.cfg_env(cfg)
        traces = []
        res = ops.group(rd, roots, args, plan=plan_for(case, rd), env=env, seed=case["seam_seed"], labels=labels)
        traces.append(res.trace)
        multi = check_report(case, rd, res, viol, "run1")
        inv = 1
        if cfg.get("cache") and not viol:
            res2 = ops.group(rd, roots, args, plan=plan_for(case, rd), env=env, seed=case["seam_seed"] + 1,
                             now_ns=T0_NS + 5 * 10**9, labels=labels)
            traces.append(res2.trace)
            check_report(case, rd, res2, viol, "run2-cached")
            inv = 2
        for v in viol:
            v["detail"] += " | cfg=%s gflags=%s fault=%s" % ({k: cfg[k] for k in ("hash_fn", "kind", "knobs", "threads", "cache", "transform", "max_prefix_size", "max_suffix_size")}, case["gflags"], case["fault"])
        return {
            "violations": viol,
            "nontrivial": bool(multi) and multi > 0,
            "sig": ops.trace_sig(rd, traces, ",".join(sorted({v["clause"] for v in viol}))),
            "faults": ops.fault_counts(traces),
            "probes": {
                "groups_with_2plus": max(multi or 0, 0),
                "group_exit_nonzero": int(multi == -1),
                "transform_runs": int(bool(cfg.get("transform"))),
                "cache_runs": int(bool(cfg.get("cache"))),
                "small_knobs": int(cfg["small"]),
                "same_inode_number_on_other_device": int(bool(labels)),
                "hash_" + cfg["hash_fn"]: 1,
                "kind_" + cfg["kind"]: 1,
            },
            "sim_ns": 5 * 10**9 * (inv - 1),
            "invocations": inv,
            "info": {"files": len(case["world"]["entries"]), "cfg": {k: cfg[k] for k in ("hash_fn", "kind", "threads", "transform", "cache")},
                     "fault": case["fault"], "groups2plus": multi},
        }
