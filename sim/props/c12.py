"""C12 - the hash cache never changes results.

Histories of (edit tree; group --cache with some configuration) on the simulated clock, with a
private cache directory that survives from step to step; inode reuse is presented by the seam;
an earlier run may be killed at the k-th write/fsync inside the cache directory."""
import os
import random

from .. import core, ops, gen, report, xform
from ..core import T0_NS, b2s, s2b, rule, stable_hash
from ..world import World, content_bytes

ID = "C12"
LEVEL = "exploration"
BUDGET = {"quick": {"n": 220, "wall_s": 420}, "thorough": {"n": 4000, "wall_s": 3300}}
RULE = ("per history (length 1..6): before every step 0..3 edits drawn from {create, modify same length, append, "
        "truncate, rename/move, delete+recreate presenting the OLD inode number (seam relabelling), add hard link, "
        "swap two files} on files that share long prefixes and suffixes, each stamped with the simulated now (steps >= "
        "1 ms); then `group --cache` with a configuration drawn per step (hash fn, transform, prefix/suffix sizes, "
        "device kind, pools) and an uncached twin run with the same configuration on the same state; ~20% of the "
        "histories kill one cached run at the k-th write/pwrite/fsync in the cache directory. Oracle: report bodies "
        "equal at every step, cached run exits 0. non-trivial = some step was served from the cache (fewer in-world "
        "reads than the uncached twin); distinct = distinct (history signature)")
ASSUMPTIONS = ["every content change changes mtime (ms resolution; forwards, or backwards for a file recreated from a backup) or length", "kill model: completed system calls are durable",
               "sled internals run real code under the seam (not a stub); its own thread interleavings are not controlled"]


def _fam(fam, n, flips=()):
    return {"fam": fam, "len": n, "flips": [list(f) for f in flips]}


def gen_case(seed, i, scripted_history=False):
    rng = random.Random(stable_hash(seed, ID, i))
    base = gen.gen_cfg(rng, small=True, allow_cache=False)
    # a quarter of the histories keep ONE transform for all steps (a cache entry made with a transform
    # can only be hit by a later run with the same transform); half of those over printable content, on
    # which some transforms fail for some files only
    text = False
    if rng.random() < 0.25:
        t = rng.choice([x for x in xform.TRANSFORMS if "$OUT" not in x[0] and not ("--in-place" in x[1] and "--no-copy" in x[1])])
        text = rng.random() < 0.5
        if rng.random() < 0.3:
            # a program that fails on SOME files only, after writing part of its output (text worlds: the files whose
            # flipped byte left the ASCII range)
            t, text = [x for x in xform.TRANSFORMS if x[0].startswith("iconv")][0], True
        base = dict(base, transform=t[0], transform_flags=list(t[1]))
    b = base["bounds"]
    n_long = max(b["suffix_threshold"] + b["suffix"] + 40, 3 * b["buf"], 200)
    w = World()
    files = []
    # families sharing long prefixes and suffixes: flips in the middle only
    for f in range(rng.randint(1, 3)):
        n = rng.choice([n_long, n_long + 7, b["max_prefix"], 50])
        for k in range(rng.randint(2, 4)):
            flips = [] if k < 2 or n < 20 else [[n // 2 + k, k]]
            p = "r/%s/f%dk%d" % (rng.choice(["a", "b"]), f, k)
            # modification times with a millisecond part, in the same second in which the history starts
            w.add_file(p, dict(_fam(f + 1, n, flips), **({"text": 1} if text else {})), mt=T0_NS + (3 * f + k) * 5 * 10**6 + rng.choice([0, 1, 999]) * 10**3)
            files.append(p)
    twins = None
    if rng.random() < 0.2:
        # two files on two DEVICES that carry the same inode number (the seam presents them so), the same length
        # and the same mtime, but different bytes - each with a true copy on its own device
        n_ = rng.choice([n_long, 50])
        mt_ = T0_NS + 77 * 10**6
        w.add_file("r/devA/x", _fam(41, n_), mt=mt_); w.add_file("r/devA/xcopy", _fam(41, n_), mt=mt_ + 10**6)
        w.add_file("r/devB/x", _fam(42, n_), mt=mt_); w.add_file("r/devB/xcopy", _fam(42, n_), mt=mt_ + 2 * 10**6)
        twins = ["r/devA/x", "r/devB/x"]
    steps = []
    live = list(files)
    lflags = []
    if rng.random() < 0.3:
        # symbolic links reported (-S) or followed (-L): the links point OUT of the scanned directory, to copies
        # of scanned files; an edit "of the link path" is an ordinary write, i.e. it changes the target and the
        # target's time and leaves the link itself as it was
        lflags = rng.choice([["-S"], ["-S"], ["-L"]])
        for k in range(rng.randint(1, 2)):
            sp = rng.choice(files)
            src = [e for e in w.entries if e["t"] == "f" and e["p"] == sp][0]
            w.add_file("store/t%d" % k, dict(src["c"]), mt=T0_NS + (50 + k) * 10**6)
            w.add_symlink("r/%s/l%d" % (rng.choice(["a", "b"]), k), "../../store/t%d" % k)
            live.append(w.entries[-1]["p"])
    counter = [0]
    for s in range(rng.randint(1, 6)):
        edits = []
        for _ in range(rng.choice([0, 1, 1, 2, 3]) if s > 0 else 0):
            kind = rng.choice(["create", "modify", "append", "truncate", "rename", "recreate", "hardlink", "swap"])
            counter[0] += 1
            uid = "c12-%d-%d" % (i, counter[0])
            if kind == "create":
                src = rng.choice(files)
                p = "r/%s/n%d" % (rng.choice(["a", "b"]), counter[0])
                edits.append({"kind": "create", "p": p, "like": src if rng.random() < 0.7 else None, "uid": uid})
                live.append(p)
            elif live:
                t = rng.choice(live)
                if kind == "rename":
                    p2 = "r/%s/m%d" % (rng.choice(["a", "b"]), counter[0])
                    edits.append({"kind": "rename", "p": t, "to": p2})
                    live.remove(t); live.append(p2)
                elif kind == "hardlink":
                    p2 = "r/%s/h%d" % (rng.choice(["a", "b"]), counter[0])
                    edits.append({"kind": "hardlink", "p": t, "to": p2})
                    live.append(p2)
                elif kind == "swap" and len(live) >= 2:
                    t2 = rng.choice([x for x in live if x != t])
                    edits.append({"kind": "swap", "p": t, "to": t2})
                elif kind == "recreate":
                    # the recreated file carries the current time - or, a third of the time, an OLDER time than the
                    # file it replaces (restored from a backup with its timestamp preserved: cp -p, rsync -t, tar x)
                    edits.append({"kind": "recreate", "p": t, "uid": uid, "like": rng.choice(files) if rng.random() < 0.5 else None,
                                  "older": rng.random() < 0.35})
                elif kind in ("modify", "append", "truncate"):
                    edits.append({"kind": kind, "p": t, "uid": uid})
        cfg = dict(base)
        if rng.random() < 0.35:
            cfg = gen.gen_cfg(rng, small=True, allow_cache=False)
        if rng.random() < 0.2:
            t = rng.choice([x for x in xform.TRANSFORMS if "--in-place" not in x[1] and "$OUT" not in x[0]])
            cfg = dict(cfg, transform=t[0], transform_flags=list(t[1]))
        tf_ = cfg.get("transform")
        if tf_ and "$IN" in tf_ and "$OUT" not in tf_ and rng.random() < 0.3:
            # the same command, used the other way: its result taken from the (copied) input file instead of from
            # its standard output, or the other way round; or run on the file itself where it only reads
            fl_ = list(cfg.get("transform_flags") or [])
            if "--in-place" in fl_:
                fl_.remove("--in-place")
            elif "--no-copy" in fl_:
                fl_.remove("--no-copy")
            elif tf_.split(" ")[0] in ("cat", "head", "base64", "od") and rng.random() < 0.5:
                fl_.append("--no-copy")
            else:
                fl_.append("--in-place")
            cfg = dict(cfg, transform_flags=fl_)
        step = {"edits": edits, "cfg": cfg, "dt": rng.choice([10**6, 10**6, 2 * 10**6, 7 * 10**6, 10**9, 3600 * 10**9])}
        steps.append(step)
    if rng.random() < 0.2 and len(steps) >= 2:
        k = rng.randrange(len(steps) - 1)
        steps[k]["kill"] = {"kind": rng.choice(["write", "pwrite", "fsync", "openw"]), "ord": rng.choice([0, 1, 2, 3, 5]),
                            "act": rng.choice(["crashb", "crasha"])}
    scripted = False
    fam0 = [p_ for p_ in files if "/f0k" in p_]
    if scripted_history and len(fam0) >= 2:
        # scripted history (no draw): v1@t1 -> run -> v2@t2 -> run -> v3@t1 -> run -> run, one configuration throughout, no
        # interrupted run, nothing else edited: the file goes back to a modification time it carried before, with a THIRD
        # content of the same length (`cp -p` over it from a tree with uniform timestamps).  Every content change changes
        # the mtime and every state is seen by a run of the same cache tree; v2 and v3 differ from v1 in the same byte,
        # so v3 is consulted in no stage whose entry the v2 run did not rewrite.
        dt_ = steps[0]["dt"] if steps else 10**6
        uid_ = "c12-%d-s" % i
        steps = [{"edits": [], "cfg": dict(base), "dt": dt_},
                 {"edits": [{"kind": "modify", "p": fam0[0], "uid": uid_ + "1"}], "cfg": dict(base), "dt": dt_},
                 {"edits": [{"kind": "modify", "p": fam0[0], "uid": uid_ + "2", "back": True}], "cfg": dict(base), "dt": dt_},
                 {"edits": [], "cfg": dict(base), "dt": dt_}]
        scripted = True
    return {"i": i, "world": w.to_json(), "steps": steps, "twins": twins, "lflags": lflags, "scripted": scripted}


def gen_cases(tier, seed):
    for i in range(BUDGET[tier]["n"]):
        yield gen_case(seed, i)
    # in ADDITION (the drawn histories above stay what they were): one scripted history per eight drawn ones
    for k in range(max(BUDGET[tier]["n"] // 8, 8)):
        yield gen_case(seed, 500000 + k, scripted_history=True)


def shrink(case):
    if case.get("scripted"):
        return      # removing a step or an edit of the scripted history would leave the premise of the property
    st = case["steps"]
    if len(st) > 1:
        for i in range(len(st)):
            c = dict(case); c["steps"] = st[:i] + st[i + 1:]; yield c
    for i, s in enumerate(st):
        for j in range(len(s["edits"])):
            c = dict(case); c["steps"] = [dict(x) for x in st]
            c["steps"][i]["edits"] = s["edits"][:j] + s["edits"][j + 1:]
            yield c
        if "kill" in s:
            c = dict(case); c["steps"] = [dict(x) for x in st]; c["steps"][i].pop("kill"); yield c
        if s["cfg"].get("transform"):
            c = dict(case); c["steps"] = [dict(x) for x in st]; c["steps"][i]["cfg"] = dict(s["cfg"], transform=None); yield c


_MTIME_BEFORE_MODIFY = {}      # (world dir, inode) -> mtime the file carried before its first "modify" of this history


def apply_edit(rd, e, now, labels, world_content):
    W = rd.wb()
    p = os.path.join(W, s2b(e["p"]))
    k = e["kind"]

    def like_bytes():
        if e.get("like") and e["like"] in world_content:
            return world_content[e["like"]]
        return None

    try:
        if k == "create":
            os.makedirs(os.path.dirname(p), exist_ok=True)
            data = like_bytes() or content_bytes({"uniq": e["uid"], "len": 120})
            open(p, "wb").write(data)
            os.utime(p, ns=(now, now))
        elif k == "modify":
            st0 = os.stat(p)
            n = st0.st_size
            data = bytearray(open(p, "rb").read())
            key = (W, st0.st_ino)
            mt = now
            if e.get("back") and key in _MTIME_BEFORE_MODIFY:
                x = 1 + sum(e["uid"].encode()) % 254
                if n:
                    data[n // 2] ^= x + 1 if x == 0x5A else x       # not the toggle below: a third content
                mt = _MTIME_BEFORE_MODIFY[key]
                if mt == st0.st_mtime_ns:
                    mt = now            # the premise: every content change changes the modification time
            else:
                _MTIME_BEFORE_MODIFY.setdefault(key, st0.st_mtime_ns)
                if n:
                    data[n // 2] ^= 0x5A
            open(p, "wb").write(bytes(data))
            os.utime(p, ns=(mt, mt))
        elif k == "append":
            open(p, "ab").write(b"+" + e["uid"].encode())
            os.utime(p, ns=(now, now))
        elif k == "truncate":
            n = os.path.getsize(p)
            os.truncate(p, n // 2)
            os.utime(p, ns=(now, now))
        elif k == "rename":
            q = os.path.join(W, s2b(e["to"]))
            os.makedirs(os.path.dirname(q), exist_ok=True)
            os.rename(p, q)
        elif k == "hardlink":
            q = os.path.join(W, s2b(e["to"]))
            os.makedirs(os.path.dirname(q), exist_ok=True)
            os.link(p, q)
        elif k == "swap":
            q = os.path.join(W, s2b(e["to"]))
            t = p + b".swp"
            os.rename(p, t); os.rename(q, p); os.rename(t, q)
        elif k == "recreate":
            st = os.lstat(p)
            old_ino = labels.get(st.st_ino, {}).get("ino", st.st_ino)
            n = st.st_size
            if st.st_nlink > 1:
                return False
            os.unlink(p)
            labels.pop(st.st_ino, None)
            data = like_bytes()
            if data is None or len(data) != n:
                data = content_bytes({"uniq": e["uid"], "len": n})
            open(p, "wb").write(data)
            mt = now
            if e.get("older"):
                mt = min(st.st_mtime_ns, now) - (3600 * 10**9 + 1_000_000)   # differs from the replaced file's mtime, but backwards
            os.utime(p, ns=(mt, mt))
            labels[os.lstat(p).st_ino] = {"ino": old_ino}     # the new file is presented with the OLD inode number
        return True
    except OSError:
        return False


def body(rep):
    return sorted((g.len, g.hash, tuple(sorted(g.paths))) for g in rep.groups)


def run_case(case):
    viol = []
    _MTIME_BEFORE_MODIFY.clear()
    with core.RunDir("c12") as rd:
        World.from_json(case["world"]).materialise(rd.world)
        world_content = {e["p"]: content_bytes(e["c"]) for e in case["world"]["entries"] if e["t"] == "f"}
        clock = T0_NS + 100 * 10**6      # all initial mtimes lie in [T0, T0+100ms)
        labels = {}
        if case.get("twins"):
            for k_, p_ in enumerate(case["twins"]):
                try:
                    labels[os.lstat(os.path.join(rd.wb(), s2b(p_))).st_ino] = {"ino": 987654321, "dev": 7001 + k_}
                except OSError:
                    pass
        traces = []
        served = 0
        hist_sig = []
        inv = 0
        killed_any = False
        for si, step in enumerate(case["steps"]):
            for e in step["edits"]:
                clock += step["dt"]
                ok = apply_edit(rd, e, clock, labels, world_content)
                hist_sig.append(e["kind"] if ok else "-")
            clock += step["dt"]
            cfg = step["cfg"]
            args = gen.cfg_args(cfg) + ["-f", "json"] + case.get("lflags", [])
            env = gen.cfg_env(cfg)
            plan = []
            if "kill" in step:
                kl = step["kill"]
                plan = [rule(kind=kl["kind"], prefix=rd.cache, ord=None, seq=None, act=kl["act"], count=1, id=0)]
                # ordinal counted over all files of the cache directory: use a global counter via count
                plan = [rule(kind=kl["kind"], prefix=rd.cache, act="delay:0", count=kl["ord"], id=1)] * (1 if kl["ord"] else 0) + plan
            cached = ops.group(rd, [os.path.join(rd.world, "r")], args + ["--cache"], env=env, now_ns=clock, labels=labels,
                               seed=100 + si, plan=plan)
            inv += 1
            traces.append(cached.trace)
            if cached.crashed():
                killed_any = True
                hist_sig.append("KILL")
                continue
            plain = ops.group(rd, [os.path.join(rd.world, "r")], args, env=env, now_ns=clock, labels=labels, seed=100 + si)
            inv += 1

            def V(clause, detail):
                viol.append({"clause": clause, "detail": "step %d: %s | cfg=%s edits so far=%s | cached stderr=%s" % (
                    si, detail, {k: cfg.get(k) for k in ("hash_fn", "kind", "knobs", "transform", "max_prefix_size", "max_suffix_size", "threads")},
                    [[(e["kind"], e["p"], e.get("to")) for e in s["edits"]] for s in case["steps"][:si + 1]],
                    cached.err.decode("utf-8", "replace")[-400:])})

            if cached.timed_out:
                V("terminates", "cached run hung")
                break
            if cached.rc != 0:
                V("cached-run-succeeds", "cached run exited %s" % cached.rc)
                break
            if plain.rc != 0:
                break
            rc_, rp = report.parse_json(cached.out), report.parse_json(plain.out)
            if body(rc_) != body(rp):
                bc, bp = body(rc_), body(rp)
                V("cached-equals-uncached", "only cached: %s ; only uncached: %s" % (
                    [(l, h[:8], [b2s(ops.relw(rd, p)) for p in ps]) for l, h, ps in bc if (l, h, ps) not in bp][:4],
                    [(l, h[:8], [b2s(ops.relw(rd, p)) for p in ps]) for l, h, ps in bp if (l, h, ps) not in bc][:4]))
                break
            r_c = len([e for e in cached.trace.main("read") if e.path.startswith(rd.wb())])
            r_p = len([e for e in plain.trace.main("read") if e.path.startswith(rd.wb())])
            if r_c < r_p:
                served += 1
            hist_sig.append("run:%s:%s" % (cfg["hash_fn"], "T" if cfg.get("transform") else "-"))
        verdict = ",".join(sorted({v["clause"] for v in viol}))
        return {
            "violations": viol,
            "nontrivial": served > 0,
            "sig": "%x" % (stable_hash(tuple(hist_sig), verdict) & 0xFFFFFFFFFFFF),
            "faults": ops.fault_counts(traces),
            "probes": {"steps": len(case["steps"]), "steps_served_from_cache": served, "killed_runs": int(killed_any),
                       "inode_reuse_presented": len([e for s in case["steps"] for e in s["edits"] if e["kind"] == "recreate"]),
                       "config_switches": len({repr(sorted((k, str(v)) for k, v in s["cfg"].items())) for s in case["steps"]}) - 1},
            "sim_ns": clock - T0_NS - 100 * 10**6,
            "invocations": inv,
            "info": {"steps": [[e["kind"] for e in s["edits"]] for s in case["steps"]], "served": served, "killed": killed_any},
        }
